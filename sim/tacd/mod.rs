// tacd-sim placeholder (filled in later)
pub struct SimListener;
impl SimListener {
	pub fn bind(_addr: &str) -> std::io::Result<SimListener> {
		Err(std::io::Error::new(std::io::ErrorKind::Other, "tacd-sim not built yet"))
	}
	pub fn incoming(&self) -> std::iter::Empty<std::io::Result<std::net::TcpStream>> {
		std::iter::empty()
	}
}
