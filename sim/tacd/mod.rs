// tacd-sim: the real tacd binary (shipped panic profile) over a simulated listener.
// `SimListener::incoming()` IS the simulator's main loop: it runs on tacd's accept thread, hands out
// in-memory streams (each hand-out makes the shipped accept loop spawn its per-connection thread),
// drives scripted clients (real OpenSSL client state machines over in-memory queues, or literal
// bytes), and releases exactly one parked handler thread at a time, so the seed -- not the kernel --
// decides who runs.  After the scripted history it performs a valid acme-tls/1 handshake, judges
// the certificate (C16's oracle), writes the result record and exits the process.
// See /verif/DESIGN.md Appendix B.
#![allow(dead_code)]

#[path = "../common/idna.rs"]
mod idna;
#[path = "../acmed/ca/der.rs"]
mod der;

use openssl::ssl::{HandshakeError, MidHandshakeSslStream, SslConnector, SslMethod, SslStream, SslVerifyMode};
use serde_json::{json, Value};
use std::collections::VecDeque;
use std::io::{self, Read, Write};
use std::sync::{Arc, Condvar, Mutex};
use std::time::Duration;

#[derive(Default, Debug)]
struct Conn {
	c2s: VecDeque<u8>,
	s2c: VecDeque<u8>,
	client_closed: bool,
	client_reset: bool,
	server_closed: bool,
	server_waiting: bool,
	go: bool,
	server_panicked: bool,
	handed_out: bool,
	reads: u64,
	/// the handler of this connection parks here (the scheduler waits on the shared condvar), so that a
	/// step wakes one thread and not every parked handler
	cv: Arc<Condvar>,
}

#[derive(Default)]
struct World {
	conns: Vec<Conn>,
	log: Vec<String>,
	/// the thread that iterates over `incoming()` (tacd's accept loop)
	accept_thread: Option<std::thread::ThreadId>,
}

thread_local! {
	/// address of the live `Incoming` of this (accept) thread, for connections that the server handles
	/// on the accept thread itself instead of a thread of their own (see `SimStream::read`)
	static INLINE_PTR: std::cell::Cell<usize> = std::cell::Cell::new(0);
}

type Shared = Arc<(Mutex<World>, Condvar)>;

pub struct SimStream {
	id: usize,
	w: Shared,
	cv: Arc<Condvar>,
}

impl std::fmt::Debug for SimStream {
	fn fmt(&self, f: &mut std::fmt::Formatter) -> std::fmt::Result {
		write!(f, "SimStream({})", self.id)
	}
}

impl Read for SimStream {
	fn read(&mut self, buf: &mut [u8]) -> io::Result<usize> {
		let (m, cv) = &*self.w;
		let mut g = m.lock().unwrap();
		loop {
			let c = &mut g.conns[self.id];
			if c.go {
				if c.client_reset {
					return Err(io::Error::from_raw_os_error(104)); // ECONNRESET
				}
				if !c.c2s.is_empty() {
					let n = buf.len().min(c.c2s.len());
					for b in buf.iter_mut().take(n) {
						*b = c.c2s.pop_front().unwrap();
					}
					c.reads += 1;
					return Ok(n);
				}
				if c.client_closed {
					return Ok(0);
				}
			}
			// The server reads on its accept thread: it handles connections one after the other, so
			// while this read blocks nothing else is accepted.  There is no handler thread to release:
			// this client is driven from here until it has sent something or closed; a client that
			// stays connected and silent blocks the accept loop for good (reported, run ended).
			if g.accept_thread == Some(std::thread::current().id()) {
				drop(g);
				let ptr = INLINE_PTR.with(|p| p.get());
				if ptr != 0 {
					let inc: &mut Incoming<'static> = unsafe { &mut *(ptr as *mut Incoming<'static>) };
					inc.drive_inline(self.id);
				}
				g = m.lock().unwrap();
				g.conns[self.id].go = true;
				continue;
			}
			let c = &mut g.conns[self.id];
			// park: nothing to do until the simulator releases this handler with input available
			c.go = false;
			c.server_waiting = true;
			cv.notify_all();
			g = self.cv.wait(g).unwrap();
		}
	}
}

impl Write for SimStream {
	fn write(&mut self, buf: &[u8]) -> io::Result<usize> {
		let (m, _) = &*self.w;
		let mut g = m.lock().unwrap();
		let c = &mut g.conns[self.id];
		if c.client_closed || c.client_reset {
			return Err(io::Error::from_raw_os_error(32)); // EPIPE
		}
		c.s2c.extend(buf.iter());
		Ok(buf.len())
	}
	fn flush(&mut self) -> io::Result<()> {
		Ok(())
	}
}

impl Drop for SimStream {
	fn drop(&mut self) {
		let (m, cv) = &*self.w;
		if let Ok(mut g) = m.lock() {
			let p = std::thread::panicking();
			let c = &mut g.conns[self.id];
			c.server_closed = true;
			c.server_waiting = false;
			c.server_panicked = p;
			cv.notify_all();
		}
	}
}

/// The client's end of a connection: non-blocking Read/Write over the same queues.
struct ClientPipe {
	id: usize,
	w: Shared,
	/// deliver at most this many bytes per flush to the server (byte-at-a-time behaviour)
	staged: Arc<Mutex<VecDeque<u8>>>,
	trickle: bool,
}

impl std::fmt::Debug for ClientPipe {
	fn fmt(&self, f: &mut std::fmt::Formatter) -> std::fmt::Result {
		write!(f, "ClientPipe({})", self.id)
	}
}

impl Read for ClientPipe {
	fn read(&mut self, buf: &mut [u8]) -> io::Result<usize> {
		let (m, _) = &*self.w;
		let mut g = m.lock().unwrap();
		let c = &mut g.conns[self.id];
		if c.s2c.is_empty() {
			if c.server_closed {
				return Ok(0);
			}
			return Err(io::Error::new(io::ErrorKind::WouldBlock, "no data yet"));
		}
		let n = buf.len().min(c.s2c.len());
		for b in buf.iter_mut().take(n) {
			*b = c.s2c.pop_front().unwrap();
		}
		Ok(n)
	}
}

impl Write for ClientPipe {
	fn write(&mut self, buf: &[u8]) -> io::Result<usize> {
		if self.trickle {
			self.staged.lock().unwrap().extend(buf.iter());
			return Ok(buf.len());
		}
		let (m, _) = &*self.w;
		let mut g = m.lock().unwrap();
		let c = &mut g.conns[self.id];
		if c.server_closed {
			return Err(io::Error::from_raw_os_error(32));
		}
		c.c2s.extend(buf.iter());
		Ok(buf.len())
	}
	fn flush(&mut self) -> io::Result<()> {
		Ok(())
	}
}

enum Tls {
	NotStarted,
	Mid(MidHandshakeSslStream<ClientPipe>),
	Done(SslStream<ClientPipe>),
	Failed(String),
}

struct Client {
	conn: usize,
	kind: String,
	alpn: Option<Vec<String>>,
	tls: Tls,
	staged: Arc<Mutex<VecDeque<u8>>>,
	trickle: bool,
	abandon_after_hello: bool,
	reset_mid_record: bool,
	literal: Option<Vec<u8>>,
	/// server name the client asks for (None = the plan's default; Some("") = no SNI extension)
	sni: Option<String>,
	finished: bool,
	steps: u32,
}

pub struct SimListener {
	w: Shared,
	plan: Value,
	result_path: String,
}

pub struct Incoming<'a> {
	l: &'a SimListener,
	rng: u64,
	/// behaviours not yet started
	todo: VecDeque<Value>,
	clients: Vec<Client>,
	await_park: Option<usize>,
	final_started: bool,
	events: Vec<String>,
	/// inside `drive_inline`: the "handler" is the calling thread, there is nobody to release or wait for
	inline: bool,
	inline_noted: bool,
}

extern "C" {
	fn _exit(code: i32) -> !;
}

fn quick_exit(code: i32) -> ! {
	use std::io::Write;
	let _ = std::io::stderr().flush();
	unsafe { _exit(code) }
}

fn splitmix(x: &mut u64) -> u64 {
	*x = x.wrapping_add(0x9E37_79B9_7F4A_7C15);
	let mut z = *x;
	z = (z ^ (z >> 30)).wrapping_mul(0xBF58_476D_1CE4_E5B9);
	z = (z ^ (z >> 27)).wrapping_mul(0x94D0_49BB_1331_11EB);
	z ^ (z >> 31)
}

impl SimListener {
	pub fn bind(addr: &str) -> io::Result<SimListener> {
		let path = addr.trim_start_matches("sim:");
		let s = std::fs::read_to_string(path)?;
		let plan: Value = serde_json::from_str(&s).map_err(|e| io::Error::new(io::ErrorKind::InvalidData, e.to_string()))?;
		Ok(SimListener {
			w: Arc::new((Mutex::new(World::default()), Condvar::new())),
			plan,
			result_path: format!("{}.result", path),
		})
	}

	pub fn incoming(&self) -> Incoming<'_> {
		self.w.0.lock().unwrap().accept_thread = Some(std::thread::current().id());
		let todo: VecDeque<Value> = self.plan["history"].as_array().cloned().unwrap_or_default().into_iter().collect();
		Incoming {
			l: self,
			rng: self.plan["sched_seed"].as_u64().unwrap_or(1),
			todo,
			clients: vec![],
			await_park: None,
			final_started: false,
			events: vec![],
			inline: false,
			inline_noted: false,
		}
	}
}

impl<'a> Incoming<'a> {
	fn finish(&mut self, verdict: Value) -> ! {
		let out = json!({ "verdict": verdict, "events": self.events });
		let _ = std::fs::write(&self.l.result_path, serde_json::to_string(&out).unwrap());
		// exit without unwinding the parked handler threads, and without running exit handlers:
		// OpenSSL's atexit clean-up racing with a handler thread that is just finishing its
		// SSL_free segfaulted once in about 20 000 runs (seen in the thorough tier)
		quick_exit(0);
	}

	fn harness_error(&mut self, msg: &str) -> ! {
		let out = json!({ "harness_error": msg, "events": self.events });
		let _ = std::fs::write(&self.l.result_path, serde_json::to_string(&out).unwrap());
		quick_exit(2);
	}

	/// wait until the handler of `conn` has parked in read() or dropped its stream
	fn wait_parked(&mut self, conn: usize) {
		if self.inline {
			return;
		}
		let (m, cv) = &*self.l.w;
		let mut g = m.lock().unwrap();
		let mut waited = 0;
		loop {
			let c = &g.conns[conn];
			if (c.server_waiting && !c.go) || c.server_closed {
				return;
			}
			let (g2, to) = cv.wait_timeout(g, Duration::from_millis(200)).unwrap();
			g = g2;
			if to.timed_out() {
				waited += 1;
				if waited > 100 {
					drop(g);
					self.harness_error("handler thread neither parked nor finished within 20 s");
				}
			}
		}
	}

	/// let the handler of `conn` run until it parks again or finishes
	fn release(&mut self, conn: usize) {
		if self.inline {
			return;
		}
		{
			let (m, cv) = &*self.l.w;
			let mut g = m.lock().unwrap();
			let c = &mut g.conns[conn];
			if c.server_closed {
				return;
			}
			if c.c2s.is_empty() && !c.client_closed && !c.client_reset {
				return; // nothing the handler could do
			}
			c.go = true;
			c.server_waiting = false;
			c.cv.notify_all();
			cv.notify_all();
		}
		self.wait_parked(conn);
		let (m, _) = &*self.l.w;
		let g = m.lock().unwrap();
		if g.conns[conn].server_panicked {
			self.events.push(format!("conn{}:handler_panicked", conn));
		}
	}

	/// see `SimStream::read`: called on the accept thread, from inside the server's read of `conn`
	fn drive_inline(&mut self, conn: usize) {
		self.inline = true;
		if !self.inline_noted {
			self.inline_noted = true;
			self.events.push(format!("conn{}:read_on_the_accept_thread", conn));
		}
		let mut guard = 0;
		loop {
			{
				let (m, _) = &*self.l.w;
				let g = m.lock().unwrap();
				let c = &g.conns[conn];
				if !c.c2s.is_empty() || c.client_closed || c.client_reset {
					break;
				}
			}
			let i = match self.clients.iter().position(|c| c.conn == conn) {
				Some(i) => i,
				None => self.harness_error("inline read on an unknown connection"),
			};
			if self.clients[i].finished || self.clients[i].kind == "stall" {
				let kind = self.clients[i].kind.clone();
				self.finish(json!({ "ok": false, "problems": [format!("accept_loop_blocked_by_silent_client:{}", kind)], "facts": {}, "handler_panics": [] }));
			}
			self.step_client(i);
			guard += 1;
			if guard > 10_000 {
				self.harness_error("inline client made no progress in 10000 steps");
			}
		}
		self.inline = false;
	}

	fn new_conn(&mut self) -> (usize, SimStream) {
		let (m, _) = &*self.l.w;
		let mut g = m.lock().unwrap();
		g.conns.push(Conn::default());
		let id = g.conns.len() - 1;
		g.conns[id].handed_out = true;
		let cv = g.conns[id].cv.clone();
		(id, SimStream { id, w: self.l.w.clone(), cv })
	}

	fn make_client(&self, conn: usize, b: &Value) -> Client {
		let kind = b["k"].as_str().unwrap_or("close").to_string();
		let alpn = b["alpn"].as_array().map(|a| a.iter().filter_map(|x| x.as_str().map(|s| s.to_string())).collect());
		Client {
			conn,
			kind: kind.clone(),
			alpn,
			tls: Tls::NotStarted,
			staged: Arc::new(Mutex::new(VecDeque::new())),
			trickle: b["trickle"].as_bool().unwrap_or(false),
			abandon_after_hello: kind == "abandon",
			reset_mid_record: kind == "reset_mid_record",
			literal: match kind.as_str() {
				"garbage" => {
					let n = b["n"].as_u64().unwrap_or(64) as usize;
					let mut s = b["seed"].as_u64().unwrap_or(7);
					Some((0..n).map(|_| splitmix(&mut s) as u8).collect())
				}
				"http" => Some(b"GET / HTTP/1.1\r\nHost: example.org\r\nUser-Agent: probe\r\n\r\n".to_vec()),
				_ => None,
			},
			sni: b["sni"].as_str().map(|s| s.to_string()),
			finished: false,
			steps: 0,
		}
	}

	fn close_client(&mut self, conn: usize, reset: bool) {
		let (m, cv) = &*self.l.w;
		let mut g = m.lock().unwrap();
		let c = &mut g.conns[conn];
		if reset {
			c.client_reset = true;
		}
		c.client_closed = true;
		c.cv.notify_all();
		cv.notify_all();
	}

	/// One scheduling step for client `i`: let the client act, then release its handler.
	fn step_client(&mut self, i: usize) {
		let conn = self.clients[i].conn;
		self.clients[i].steps += 1;
		let kind = self.clients[i].kind.clone();
		match kind.as_str() {
			"close" => {
				self.close_client(conn, false);
				self.release(conn);
				self.clients[i].finished = true;
			}
			"stall" => {
				// connected, silent, kept open until the process exits
				self.clients[i].finished = true;
			}
			"garbage" | "http" => {
				let data = self.clients[i].literal.take();
				if let Some(d) = data {
					let (m, _) = &*self.l.w;
					m.lock().unwrap().conns[conn].c2s.extend(d.iter());
					self.release(conn);
				} else {
					self.close_client(conn, false);
					self.release(conn);
					self.clients[i].finished = true;
				}
			}
			_ => self.step_tls(i),
		}
		if self.clients[i].finished {
			self.events.push(format!("conn{}:{}:done", conn, kind));
		}
	}

	fn connector(&self, alpn: &Option<Vec<String>>) -> SslConnector {
		let mut b = SslConnector::builder(SslMethod::tls()).unwrap();
		b.set_verify(SslVerifyMode::NONE);
		if let Some(list) = alpn {
			let mut wire = vec![];
			for p in list {
				wire.push(p.len() as u8);
				wire.extend(p.as_bytes());
			}
			if !wire.is_empty() {
				b.set_alpn_protos(&wire).unwrap();
			}
		}
		b.build()
	}

	/// flush staged client bytes to the server, `n` at a time (trickle) or all
	fn flush_staged(&mut self, i: usize) -> bool {
		let conn = self.clients[i].conn;
		let mut staged = self.clients[i].staged.lock().unwrap();
		if staged.is_empty() {
			return false;
		}
		let n = if self.clients[i].trickle { 1 + (splitmix(&mut self.rng) % 3) as usize } else { staged.len() };
		let (m, _) = &*self.l.w;
		let mut g = m.lock().unwrap();
		for _ in 0..n.min(staged.len()) {
			let b = staged.pop_front().unwrap();
			g.conns[conn].c2s.push_back(b);
		}
		true
	}

	fn step_tls(&mut self, i: usize) {
		let conn = self.clients[i].conn;
		// trickling: deliver pending bytes first, a few at a time, releasing the handler each time
		if self.clients[i].trickle && self.flush_staged(i) {
			self.release(conn);
			return;
		}
		let state = std::mem::replace(&mut self.clients[i].tls, Tls::Failed("taken".into()));
		let next = match state {
			Tls::NotStarted => {
				let default_sni = self.l.plan["expect"]["sni"].as_str().unwrap_or("example.org").to_string();
				let (sni, send_sni) = match &self.clients[i].sni {
					Some(s) if s.is_empty() => (default_sni, false),
					Some(s) => (s.clone(), true),
					None => (default_sni, true),
				};
				let pipe = ClientPipe { id: conn, w: self.l.w.clone(), staged: self.clients[i].staged.clone(), trickle: self.clients[i].trickle };
				let connector = self.connector(&self.clients[i].alpn);
				let cfg = connector.configure().unwrap().verify_hostname(false).use_server_name_indication(send_sni);
				match cfg.connect(&sni, pipe) {
					Ok(s) => Tls::Done(s),
					Err(HandshakeError::WouldBlock(mid)) => Tls::Mid(mid),
					Err(e) => Tls::Failed(format!("{}", e)),
				}
			}
			Tls::Mid(mid) => match mid.handshake() {
				Ok(s) => Tls::Done(s),
				Err(HandshakeError::WouldBlock(mid)) => Tls::Mid(mid),
				Err(e) => Tls::Failed(format!("{}", e)),
			},
			other => other,
		};
		self.clients[i].tls = next;
		// hostile endings
		if self.clients[i].abandon_after_hello && self.clients[i].steps >= 1 {
			self.close_client(conn, false);
			self.release(conn);
			self.clients[i].finished = true;
			return;
		}
		if self.clients[i].reset_mid_record && self.clients[i].steps >= 1 {
			// keep only half of what the client wrote, then reset
			{
				let (m, _) = &*self.l.w;
				let mut g = m.lock().unwrap();
				let keep = g.conns[conn].c2s.len() / 2;
				g.conns[conn].c2s.truncate(keep);
			}
			self.release(conn);
			self.close_client(conn, true);
			self.release(conn);
			self.clients[i].finished = true;
			return;
		}
		if self.clients[i].trickle {
			self.flush_staged(i);
		}
		self.release(conn);
		match &self.clients[i].tls {
			Tls::Done(_) | Tls::Failed(_) => {
				if self.clients[i].kind != "valid" {
					// a finished hostile/other client closes its end
					self.close_client(conn, false);
					self.release(conn);
				}
				self.clients[i].finished = true;
			}
			_ => {
				if self.clients[i].steps > 2000 {
					self.clients[i].tls = Tls::Failed("handshake did not finish in 2000 steps".into());
					self.clients[i].finished = true;
				}
			}
		}
	}

	/// C16's oracle on the completed valid handshake
	fn judge(&mut self, i: usize) -> Value {
		let exp = self.l.plan["expect"].clone();
		let mut problems: Vec<String> = vec![];
		let mut facts = json!({});
		match &self.clients[i].tls {
			Tls::Done(s) => {
				let ssl = s.ssl();
				let alpn = ssl.selected_alpn_protocol().map(|p| String::from_utf8_lossy(p).to_string());
				facts["alpn"] = json!(alpn);
				if alpn.as_deref() != Some("acme-tls/1") {
					problems.push(format!("alpn_not_negotiated:{:?}", alpn));
				}
				match ssl.peer_certificate() {
					None => problems.push("no_peer_certificate".into()),
					Some(cert) => {
						// self-signed
						let self_signed = cert.public_key().map(|k| cert.verify(&k).unwrap_or(false)).unwrap_or(false) && cert.issuer_name().to_der().ok() == cert.subject_name().to_der().ok();
						if !self_signed {
							problems.push("not_self_signed".into());
						}
						// currently valid (real time: tacd-sim has no virtual clock)
						// The judged handshake happens milliseconds after start-up, a CA's seconds later:
						// "currently valid" is demanded for now and for the next 10 s, which also keeps the
						// verdict from depending on whether a second ticks between generation and judgement.
						let unix = std::time::SystemTime::now().duration_since(std::time::UNIX_EPOCH).map(|d| d.as_secs()).unwrap_or(0);
						let now = openssl::asn1::Asn1Time::from_unix(unix as _).unwrap();
						let soon = openssl::asn1::Asn1Time::from_unix((unix + 10) as _).unwrap();
						let nb_ok = cert.not_before().compare(&now).map(|o| o != std::cmp::Ordering::Greater).unwrap_or(false);
						let na_ok = cert.not_after().compare(&soon).map(|o| o != std::cmp::Ordering::Less).unwrap_or(false);
						if !nb_ok || !na_ok {
							problems.push("not_currently_valid".into());
						}
						// exactly one SAN, dNSName == A-label by the harness's own IDNA
						let want = idna::a_label_name(exp["domain_raw"].as_str().unwrap_or(""));
						let mut sans = vec![];
						let mut other = 0;
						if let Some(list) = cert.subject_alt_names() {
							for g in list.iter() {
								match g.dnsname() {
									Some(d) => sans.push(d.to_string()),
									None => other += 1,
								}
							}
						}
						facts["sans"] = json!(sans);
						facts["want_san"] = json!(want);
						if sans.len() != 1 || other != 0 || sans[0] != want {
							problems.push(format!("san_mismatch:{:?}+{}other_vs_{}", sans, other, want));
						}
						// acmeIdentifier: critical, OCTET STRING == digest
						let der_bytes = cert.to_der().unwrap_or_default();
						match acme_identifier(&der_bytes) {
							Some((critical, value)) => {
								let want_hex = exp["digest_hex"].as_str().unwrap_or("").to_lowercase();
								let got_hex: String = value.iter().map(|b| format!("{:02x}", b)).collect();
								facts["acme_identifier"] = json!({"critical": critical, "value": got_hex});
								if !critical {
									problems.push("acme_identifier_not_critical".into());
								}
								if got_hex != want_hex {
									problems.push(format!("acme_identifier_value:{}_vs_{}", got_hex, want_hex));
								}
							}
							None => problems.push("acme_identifier_missing_or_malformed".into()),
						}
						// key type
						let kt = cert.public_key().map(|k| key_type(&k)).unwrap_or_default();
						facts["key_type"] = json!(kt);
						if let Some(w) = exp["key_type"].as_str() {
							if w != kt {
								problems.push(format!("key_type:{}_vs_{}", kt, w));
							}
						}
						if let Some(w) = exp["sig_digest"].as_str() {
							let oid = der::outer_sig_alg_oid(&der_bytes).unwrap_or_default();
							let d = der::sig_alg_digest(&oid);
							facts["sig_digest"] = json!(d);
							if d != w {
								problems.push(format!("signature_digest:{}_vs_{}", d, w));
							}
						}
					}
				}
			}
			Tls::Failed(e) => problems.push(format!("valid_handshake_failed:{}", e.chars().take(120).collect::<String>())),
			_ => problems.push("valid_handshake_incomplete".into()),
		}
		json!({ "ok": problems.is_empty(), "problems": problems, "facts": facts })
	}
}

fn key_type(k: &openssl::pkey::PKey<openssl::pkey::Public>) -> String {
	use openssl::nid::Nid;
	use openssl::pkey::Id;
	match k.id() {
		Id::RSA => format!("rsa{}", k.bits()),
		Id::EC => match k.ec_key().ok().and_then(|e| e.group().curve_name()) {
			Some(Nid::X9_62_PRIME256V1) => "ecdsa-p256".into(),
			Some(Nid::SECP384R1) => "ecdsa-p384".into(),
			Some(Nid::SECP521R1) => "ecdsa-p521".into(),
			_ => "ec-other".into(),
		},
		Id::ED25519 => "ed25519".into(),
		Id::ED448 => "ed448".into(),
		_ => "other".into(),
	}
}

/// Locate the acmeIdentifier extension (OID 1.3.6.1.5.5.7.1.31) by a small DER walk:
/// returns (critical, content of the inner OCTET STRING).
fn acme_identifier(cert_der: &[u8]) -> Option<(bool, Vec<u8>)> {
	let cert = der::tlv(cert_der)?;
	let tbs = der::children(cert.body).into_iter().next()?;
	for f in der::children(tbs.body) {
		if f.tag != 0xA3 {
			continue;
		}
		let seq = der::tlv(f.body)?;
		for ext in der::children(seq.body) {
			let parts = der::children(ext.body);
			if parts.is_empty() || parts[0].tag != 0x06 {
				continue;
			}
			if der::oid_to_string(parts[0].body) != "1.3.6.1.5.5.7.1.31" {
				continue;
			}
			let (critical, val) = if parts.len() == 3 && parts[1].tag == 0x01 {
				(parts[1].body == [0xff], &parts[2])
			} else if parts.len() == 2 {
				(false, &parts[1])
			} else {
				return None;
			};
			if val.tag != 0x04 {
				return None;
			}
			let inner = der::tlv(val.body)?;
			if inner.tag != 0x04 || !inner.rest.is_empty() {
				return None;
			}
			return Some((critical, inner.body.to_vec()));
		}
	}
	None
}

impl<'a> Iterator for Incoming<'a> {
	type Item = io::Result<SimStream>;

	fn next(&mut self) -> Option<io::Result<SimStream>> {
		INLINE_PTR.with(|p| p.set(self as *mut Incoming as usize));
		// the thread spawned for the stream handed out last must have parked (or finished) before
		// anything else happens
		if let Some(c) = self.await_park.take() {
			self.wait_parked(c);
		}
		loop {
			// choose: start the next behaviour, or step one of the unfinished clients
			let unfinished: Vec<usize> = (0..self.clients.len()).filter(|i| !self.clients[*i].finished).collect();
			let can_start = !self.todo.is_empty();
			let overlap = self.l.plan["overlap"].as_bool().unwrap_or(false);
			let start_now = can_start && (unfinished.is_empty() || (overlap && splitmix(&mut self.rng) % 3 == 0));
			if start_now {
				let b = self.todo.pop_front().unwrap();
				let count = if b["k"] == "stall" { b["n"].as_u64().unwrap_or(1) } else { 1 };
				// a "stall" of n connections is n hand-outs: queue the remaining ones
				if count > 1 {
					let mut rest = b.clone();
					rest["n"] = json!(count - 1);
					self.todo.push_front(rest);
				}
				let (id, stream) = self.new_conn();
				let cl = self.make_client(id, &b);
				self.events.push(format!("conn{}:{}:open", id, cl.kind));
				self.clients.push(cl);
				self.await_park = Some(id);
				return Some(Ok(stream));
			}
			if !unfinished.is_empty() {
				let pick = unfinished[(splitmix(&mut self.rng) % unfinished.len() as u64) as usize];
				self.step_client(pick);
				continue;
			}
			// history done: the final, valid handshake
			if !self.final_started {
				self.final_started = true;
				let fin = self.l.plan["final"].clone();
				let b = if fin.is_object() { fin } else { json!({"k": "valid", "alpn": ["acme-tls/1"]}) };
				let (id, stream) = self.new_conn();
				let mut cl = self.make_client(id, &b);
				cl.kind = "valid".into();
				if cl.alpn.is_none() {
					cl.alpn = Some(vec!["acme-tls/1".into()]);
				}
				self.events.push(format!("conn{}:final:open", id));
				self.clients.push(cl);
				self.await_park = Some(id);
				return Some(Ok(stream));
			}
			// judge
			let last = self.clients.len() - 1;
			let expect_refusal = self.l.plan["final"]["expect_refusal"].as_bool().unwrap_or(false);
			let verdict = if expect_refusal {
				let refused = matches!(&self.clients[last].tls, Tls::Failed(_));
				let detail = match &self.clients[last].tls {
					Tls::Failed(e) => e.chars().take(160).collect::<String>(),
					Tls::Done(s) => format!("handshake succeeded, alpn {:?}", s.ssl().selected_alpn_protocol().map(|p| String::from_utf8_lossy(p).to_string())),
					_ => "incomplete".into(),
				};
				json!({ "ok": refused, "problems": if refused { vec![] } else { vec![format!("client_offering_only_other_protocols_was_served:{}", detail)] }, "facts": {"refusal": detail} })
			} else {
				self.judge(last)
			};
			let panicked: Vec<usize> = {
				let (m, _) = &*self.l.w;
				let g = m.lock().unwrap();
				(0..g.conns.len()).filter(|i| g.conns[*i].server_panicked).collect()
			};
			let mut v = verdict;
			v["handler_panics"] = json!(panicked);
			self.finish(v);
		}
	}
}
