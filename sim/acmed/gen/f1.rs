// F1: issuance swarm -- configuration swarm x CA-behaviour swarm, no faults.
use super::super::plan::*;
use super::super::prng::Rng;
use super::base::*;
use std::collections::BTreeMap;

pub const HOOK_TYPES: [&str; 11] = [
	"file-pre-create",
	"file-post-create",
	"file-pre-edit",
	"file-post-edit",
	"challenge-http-01",
	"challenge-http-01-clean",
	"challenge-dns-01",
	"challenge-dns-01-clean",
	"challenge-tls-alpn-01",
	"challenge-tls-alpn-01-clean",
	"post-operation",
];

pub const SUBJECT_KEYS: [&str; 15] = [
	"country_name",
	"generation_qualifier",
	"given_name",
	"initials",
	"locality_name",
	"name",
	"organization_name",
	"organizational_unit_name",
	"pkcs9_email_address",
	"postal_address",
	"postal_code",
	"state_or_province_name",
	"street",
	"surname",
	"title",
];

const ENV_KEYS: [&str; 6] = ["VK0", "VK1", "VK2", "VK3", "VK4", "VK5"];

fn env_level(rng: &mut Rng, level: &str, p_each: u64) -> BTreeMap<String, String> {
	let mut m = BTreeMap::new();
	for k in ENV_KEYS.iter() {
		if rng.chance(p_each, 100) {
			m.insert(k.to_string(), format!("{}:{}", level, k));
		}
	}
	m
}

fn args_for_types(name: &str, types: &[String]) -> Vec<String> {
	let mut a = vec![format!("hook={}", name)];
	let is_chall = types.iter().any(|t| t.starts_with("challenge-"));
	let is_post = types.iter().any(|t| t == "post-operation");
	let is_file = types.iter().any(|t| t.starts_with("file-"));
	if is_chall {
		a.extend(chall_args(name).into_iter().skip(1));
	}
	if is_post {
		a.extend(postop_args(name).into_iter().skip(1));
	}
	if is_file {
		a.extend(file_args(name).into_iter().skip(1));
	}
	a
}

/// A generated hook table: hooks with random type sets, nested groups, a certificate hook list and
/// an account hook list.  `hard_failures`: allow non-zero exits without allow_failure.
pub fn hook_table(rng: &mut Rng, hard_failures: bool) -> (Vec<HookCfg>, Vec<GroupCfg>, Vec<String>, Vec<String>) {
	let n = rng.range(3, 9) as usize;
	let mut hooks = vec![];
	for i in 0..n {
		let name = format!("hk{}", i);
		let nt = rng.range(1, 3);
		let mut types: Vec<String> = vec![];
		for _ in 0..nt {
			let t = HOOK_TYPES[rng.below(11) as usize].to_string();
			if !types.contains(&t) {
				types.push(t);
			}
		}
		let mut h = HookCfg {
			name: name.clone(),
			types: types.clone(),
			cmd: "simhook".into(),
			args: Some(args_for_types(&name, &types)),
			..Default::default()
		};
		match rng.below(5) {
			0 => h.stdin_str = Some(format!("in-{} {{{{ env.VK0 }}}}|{{{{ env.VK1 }}}}", name)),
			1 => h.stdout = Some(format!("{}/out-{}-{{{{ env.VK0 }}}}.txt", SCRATCH, name)),
			2 => h.stderr = Some(format!("{}/err-{}-{{{{ env.VK1 }}}}.txt", SCRATCH, name)),
			_ => {}
		}
		if rng.chance(1, 4) {
			h.allow_failure = Some(rng.chance(3, 4));
		}
		if rng.chance(1, 4) {
			let code = [1, 2, 3, 77, 126, 127, 255, -1][rng.below(8) as usize];
			let tolerated = h.allow_failure == Some(true);
			if tolerated || hard_failures {
				// fail on some invocations only
				h.exits = (0..rng.range(1, 4)).map(|_| if rng.chance(1, 2) { code } else { 0 }).collect();
			}
		}
		hooks.push(h);
	}
	// always make sure every challenge type and post-operation has at least one hook in most plans
	if rng.chance(4, 5) {
		let (std, _) = std_hooks();
		for h in std {
			hooks.push(h);
		}
	}
	// groups, possibly nested (no cycles: a group only refers to hooks and to earlier groups)
	let mut groups: Vec<GroupCfg> = vec![];
	for g in 0..rng.below(4) {
		let mut members = vec![];
		for _ in 0..rng.range(1, 4) {
			if !groups.is_empty() && rng.chance(1, 3) {
				members.push(groups[rng.below(groups.len() as u64) as usize].name.clone());
			} else {
				members.push(hooks[rng.below(hooks.len() as u64) as usize].name.clone());
			}
		}
		groups.push(GroupCfg { name: format!("grp{}", g), hooks: members });
	}
	// a group reached more than once from one name: listed twice in a later group, or through two
	// different groups ("diamond")
	if groups.len() >= 2 && rng.chance(1, 3) {
		let last = groups.len() - 1;
		let inner = groups[rng.below(last as u64) as usize].name.clone();
		let at = rng.below(groups[last].hooks.len() as u64 + 1) as usize;
		groups[last].hooks.insert(at, inner.clone());
		if rng.chance(1, 2) {
			groups[last].hooks.push(inner);
		}
	}
	let pick_list = |rng: &mut Rng, hooks: &Vec<HookCfg>, groups: &Vec<GroupCfg>| -> Vec<String> {
		let mut names: Vec<String> = hooks.iter().map(|h| h.name.clone()).collect();
		names.extend(groups.iter().map(|g| g.name.clone()));
		rng.shuffle(&mut names);
		let keep = rng.range(1, names.len() as u64) as usize;
		names.truncate(keep);
		if rng.chance(1, 5) {
			// the same hook or group attached twice
			let again = names[rng.below(names.len() as u64) as usize].clone();
			let at = rng.below(names.len() as u64 + 1) as usize;
			names.insert(at, again);
		}
		names
	};
	let cert_list = pick_list(rng, &hooks, &groups);
	let acc_list = if rng.chance(1, 2) { pick_list(rng, &hooks, &groups) } else { vec![] };
	(hooks, groups, cert_list, acc_list)
}

pub fn subject_attrs(rng: &mut Rng) -> BTreeMap<String, String> {
	let mut m = BTreeMap::new();
	if rng.chance(1, 2) {
		return m;
	}
	for k in SUBJECT_KEYS.iter() {
		if rng.chance(1, 3) {
			let v = if *k == "country_name" {
				let a = (b'A' + rng.below(26) as u8) as char;
				let b = (b'A' + rng.below(26) as u8) as char;
				format!("{}{}", a, b)
			} else if *k == "pkcs9_email_address" {
				format!("u{}@example.org", rng.below(1000))
			} else {
				let n = rng.range(1, 24) as usize;
				let alphabet = "abcdefghijklmnopqrstuvwxyzABCDEFGHIJKLMNOPQRSTUVWXYZ0123456789 -";
				let chars: Vec<char> = alphabet.chars().collect();
				let s: String = (0..n).map(|_| chars[rng.below(chars.len() as u64) as usize]).collect();
				format!("x{}", s.trim())
			};
			m.insert(k.to_string(), v);
		}
	}
	m
}

pub fn owners(rng: &mut Rng, g: &mut Global) {
	let users = ["root", "daemon", "nobody", "0", "1", "65534"];
	let groups = ["root", "daemon", "nogroup", "0", "1", "65534"];
	let modes = [0o600u32, 0o640, 0o644, 0o400, 0o660, 0o604, 0o444, 0o666];
	if rng.chance(1, 2) {
		g.cert_file_mode = Some(modes[rng.below(8) as usize]);
	}
	if rng.chance(1, 2) {
		g.pk_file_mode = Some(modes[rng.below(8) as usize]);
	}
	if rng.chance(1, 3) {
		g.cert_file_user = Some(users[rng.below(6) as usize].into());
	}
	if rng.chance(1, 3) {
		g.cert_file_group = Some(groups[rng.below(6) as usize].into());
	}
	if rng.chance(1, 3) {
		g.pk_file_user = Some(users[rng.below(6) as usize].into());
	}
	if rng.chance(1, 3) {
		g.pk_file_group = Some(groups[rng.below(6) as usize].into());
	}
}

pub fn ca_knobs(rng: &mut Rng, must_offer: &[String]) -> Knobs {
	let mut k = Knobs::default();
	k.authz_order = ["as_requested", "reversed", "shuffled"][rng.below(3) as usize].into();
	k.chall_order = ["as_requested", "reversed", "shuffled"][rng.below(3) as usize].into();
	// offer: all, or exactly what the configuration needs (+ maybe one more)
	if rng.chance(1, 3) {
		let mut o: Vec<String> = must_offer.to_vec();
		if rng.chance(1, 2) {
			let extra = ["http-01", "dns-01", "tls-alpn-01"][rng.below(3) as usize].to_string();
			if !o.contains(&extra) {
				o.push(extra);
			}
		}
		k.offer = o;
	}
	k.wildcard_any = rng.chance(1, 4);
	k.extra_unknown_chall = rng.chance(1, 4);
	if rng.chance(1, 3) {
		k.authz_status = (0..rng.range(1, 4)).map(|_| if rng.chance(1, 2) { "valid".to_string() } else { String::new() }).collect();
	}
	k.polls_authz = [0u32, 0, 1, 3][rng.below(4) as usize];
	k.polls_ready = [0u32, 0, 1, 2][rng.below(4) as usize];
	k.polls_valid = [0u32, 0, 1, 4][rng.below(4) as usize];
	k.nonce_on_get = rng.chance(1, 2);
	k.orders_url = rng.chance(3, 4);
	k.meta = rng.chance(1, 2);
	k.chain_len = vec![rng.range(1, 4) as u32];
	k.bad_nonce_every = [0u64, 0, 0, 3, 7][rng.below(5) as usize];
	if rng.chance(1, 6) {
		k.nonce_ttl_s = Some([1u64, 30, 3600][rng.below(3) as usize]);
	}
	k.bad_sig_answer = ["unauthorized", "malformed"][rng.below(2) as usize].into();
	k
}

pub fn build(rng: &mut Rng, opts: &F1Opts) -> Plan {
	let n_certs = rng.range(1, opts.max_certs) as usize;
	let n_cas = if rng.chance(1, 4) { 2 } else { 1 };
	let n_accounts = if rng.chance(1, 3) { 2 } else { 1 };
	let (hooks, groups, cert_list, acc_list) = if opts.generated_hooks {
		hook_table(rng, opts.hard_hook_failures)
	} else {
		let (h, n) = std_hooks();
		(h, vec![], n, vec![])
	};
	let mut accounts = vec![];
	for a in 0..n_accounts {
		let mut acc = account(&["acc", "Ünï cødé 账户"][a], &key_type(rng, opts.allow_rsa4096));
		acc.contacts = (0..rng.range(0, 3)).map(|i| format!("c{}-{}@example.org", a, i)).collect();
		acc.env = env_level(rng, &format!("a{}", a), 30);
		acc.hooks = acc_list.clone();
		if opts.eab && rng.chance(1, 3) {
			acc.external_account = Some(EabCfg {
				identifier: format!("eab-kid-{}", a),
				key: super::super::util::b64u(format!("mac-key-{}-{}", a, rng.next_u64()).as_bytes()),
				signature_algorithm: [None, Some("HS256".to_string()), Some("HS384".to_string()), Some("HS512".to_string())][rng.below(4) as usize].clone(),
			});
		}
		accounts.push(acc);
	}
	let mut certs = vec![];
	let mut needed: Vec<String> = vec![];
	for i in 0..n_certs {
		let n_ids = rng.range(1, opts.max_ids) as usize;
		let mut ids = identifiers(rng, n_ids, 1, &format!("c{}-", i));
		for id in ids.iter_mut() {
			if opts.generated_hooks {
				id.env = env_level(rng, &format!("i{}", i), 25);
			}
			if !needed.contains(&id.challenge) {
				needed.push(id.challenge.clone());
			}
		}
		certs.push(CertCfg {
			name: if rng.chance(1, 3) { Some(format!("crt {}", i)) } else { None },
			account: accounts[rng.below(n_accounts as u64) as usize].name.clone(),
			endpoint: format!("ep{}", rng.below(n_cas as u64)),
			identifiers: ids,
			key_type: Some(key_type(rng, opts.allow_rsa4096)),
			csr_digest: [None, Some("sha256".to_string()), Some("sha384".to_string()), Some("sha512".to_string())][rng.below(4) as usize].clone(),
			kp_reuse: [None, Some(true), Some(false)][rng.below(3) as usize],
			subject_attributes: subject_attrs(rng),
			env: if opts.generated_hooks { env_level(rng, &format!("c{}", i), 40) } else { BTreeMap::new() },
			hooks: cert_list.clone(),
			..Default::default()
		});
	}
	let mut global = Global::default();
	if opts.generated_hooks {
		global.env = env_level(rng, "g", 50);
	}
	if opts.owners {
		owners(rng, &mut global);
	}
	let mut world = world_cfg(rng);
	if opts.generated_hooks {
		for (k, v) in env_level(rng, "proc", 50) {
			world.proc_env.insert(k, v);
		}
	}
	// key file states for kp_reuse
	for (i, c) in certs.iter().enumerate() {
		if c.kp_reuse == Some(true) && rng.chance(1, 2) {
			let content = match rng.below(4) {
				0 => format!("key:{}", c.key_type.clone().unwrap()),
				1 => {
					let other = if c.key_type.as_deref() == Some("ecdsa-p256") { "ed25519" } else { "ecdsa-p256" };
					format!("key:{}", other)
				}
				2 => "garbage:300".to_string(),
				_ => "empty".to_string(),
			};
			world.pre_files.push(PreFile { target: format!("pk:{}", i), content, lifetime_s: 0, mode: Some(0o600) });
		}
	}
	let mut cas = vec![];
	for c in 0..n_cas {
		let mut k = ca_knobs(rng, &needed);
		if accounts.iter().any(|a| a.external_account.is_some()) && accounts.iter().all(|a| a.external_account.is_some()) {
			k.eab_required = rng.chance(1, 2);
		}
		cas.push(CaCfg { host: format!("ca{}.sim", c), knobs: k });
	}
	let renew = rng.chance(1, 2);
	if renew {
		for c in cas.iter_mut() {
			c.knobs.lifetime_s = vec![3600];
		}
	}
	let mut sched = default_sched(rng);
	sched.net_us.1 = sched.net_us.1.min(80_000);
	Plan {
		world,
		config: Config {
			global,
			rate_limits: vec![],
			endpoints: (0..n_cas).map(|c| EndpointCfg { name: format!("ep{}", c), ca: c, rate_limits: vec![], tos_agreed: true }).collect(),
			hooks,
			groups,
			accounts,
			certificates: certs,
		},
		cas,
		ops: vec![Op::Run { attempts: if renew { 2 } else { 1 }, max_virtual_s: 20_000, only: vec![] }],
		faults: vec![],
		sched,
		..Default::default()
	}
}

pub struct F1Opts {
	pub max_certs: u64,
	pub max_ids: u64,
	pub generated_hooks: bool,
	pub hard_hook_failures: bool,
	pub owners: bool,
	pub eab: bool,
	pub allow_rsa4096: bool,
}
