// Building blocks shared by all families: names, identifiers, hooks, accounts, certificates.
use super::super::expect;
use super::super::plan::*;
use super::super::prng::Rng;
use std::collections::BTreeMap;

pub const KEY_TYPES: [&str; 7] = [
	"ecdsa-p256",
	"ecdsa-p384",
	"ecdsa-p521",
	"ed25519",
	"ed448",
	"rsa2048",
	"rsa4096",
];
pub const CHEAP_KEY_TYPES: [&str; 5] =
	["ecdsa-p256", "ecdsa-p384", "ecdsa-p521", "ed25519", "ed448"];

/// weighted key type: RSA kept rare for cost (rsa2048 ~3 %, rsa4096 only if `allow_4096`)
pub fn key_type(rng: &mut Rng, allow_4096: bool) -> String {
	let r = rng.below(1000);
	if r < 30 {
		return "rsa2048".into();
	}
	if r < 33 && allow_4096 {
		return "rsa4096".into();
	}
	CHEAP_KEY_TYPES[rng.below(5) as usize].to_string()
}

const ASCII_LOW: &str = "abcdefghijklmnopqrstuvwxyz0123456789";
const LATIN: &str = "éèêàâüöäñåøçíóú";
const LATIN_UP: &str = "ÉÈÊÀÂÜÖÄÑÅØÇÍÓÚ";
const GREEK: &str = "αβγδεζηθικλμνξοπρτυφχψω";
const GREEK_UP: &str = "ΑΒΓΔΕΖΗΘΙΚΛΜΝΞΟΠΡΤΥΦΧΨΩ";
const CYR: &str = "абвгдежзиклмнопрстуфхцчшщыэюя";
const CYR_UP: &str = "АБВГДЕЖЗИКЛМНОПРСТУФХЦЧШЩЫЭЮЯ";
const CJK: &str = "中文日本語漢字東京大阪名前";

fn pick_char(rng: &mut Rng, s: &str) -> char {
	let v: Vec<char> = s.chars().collect();
	v[rng.below(v.len() as u64) as usize]
}

/// One DNS label.  style: 0 ascii lower, 1 ascii mixed case, 2 latin-1, 3 greek, 4 cyrillic,
/// 5 CJK, 6 mixed-case non-ASCII
pub fn label(rng: &mut Rng, style: u64) -> String {
	let n = rng.range(1, 10) as usize;
	let mut s = String::new();
	for i in 0..n {
		let c = match style {
			0 => pick_char(rng, ASCII_LOW),
			1 => {
				let c = pick_char(rng, ASCII_LOW);
				if rng.chance(1, 2) {
					c.to_ascii_uppercase()
				} else {
					c
				}
			}
			2 => {
				if rng.chance(1, 2) {
					pick_char(rng, LATIN)
				} else {
					pick_char(rng, ASCII_LOW)
				}
			}
			3 => pick_char(rng, GREEK),
			4 => pick_char(rng, CYR),
			5 => pick_char(rng, CJK),
			_ => match rng.below(4) {
				0 => pick_char(rng, LATIN_UP),
				1 => pick_char(rng, GREEK_UP),
				2 => pick_char(rng, CYR_UP),
				_ => pick_char(rng, ASCII_LOW).to_ascii_uppercase(),
			},
		};
		// hyphens only inside a label, never in positions 3-4 (reserved "xn--" look-alikes)
		if style <= 1 && i > 0 && i + 1 < n && i != 2 && i != 3 && rng.chance(1, 12) {
			s.push('-');
		} else {
			s.push(c);
		}
	}
	s
}

pub fn dns_name(rng: &mut Rng, exotic: bool) -> String {
	let labels = rng.range(1, 3);
	let mut parts = vec![];
	for _ in 0..labels {
		let style = if exotic { rng.below(7) } else { rng.below(2) };
		parts.push(label(rng, style));
	}
	let tld = ["org", "example", "Test", "sim", "INVALID"];
	parts.push(tld[rng.below(tld.len() as u64) as usize].to_string());
	parts.join(".")
}

pub fn ipv4(rng: &mut Rng) -> String {
	format!(
		"{}.{}.{}.{}",
		rng.range(1, 223),
		rng.below(256),
		rng.below(256),
		rng.range(1, 254)
	)
}

pub fn ipv6(rng: &mut Rng) -> String {
	let g: Vec<u16> = (0..8)
		.map(|_| {
			if rng.chance(2, 5) {
				0
			} else {
				rng.below(65536) as u16
			}
		})
		.collect();
	match rng.below(6) {
		0 => g
			.iter()
			.map(|x| format!("{:04x}", x))
			.collect::<Vec<_>>()
			.join(":"),
		1 => g
			.iter()
			.map(|x| format!("{:X}", x))
			.collect::<Vec<_>>()
			.join(":"),
		2 => format!("2001:db8::{:x}", rng.range(1, 65535)),
		3 => format!("::ffff:{}", ipv4(rng)),
		4 => format!("64:ff9b::{}", ipv4(rng)),
		_ => {
			let a = std::net::Ipv6Addr::new(g[0], g[1], g[2], g[3], g[4], g[5], g[6], g[7]);
			a.to_string()
		}
	}
}

/// An identifier set of `n` entries whose wire forms are pairwise distinct.
/// `mix`: 0 = plain ascii dns only, 1 = everything (wildcards, IDN, mixed case, IPs)
pub fn identifiers(rng: &mut Rng, n: usize, mix: u64, tag: &str) -> Vec<IdentCfg> {
	let mut out: Vec<IdentCfg> = vec![];
	let mut seen = std::collections::BTreeSet::new();
	let mut guard = 0;
	while out.len() < n && guard < 200 {
		guard += 1;
		let kind = if mix == 0 { 0 } else { rng.below(10) };
		let id = match kind {
			0..=4 => {
				let exotic = mix != 0 && rng.chance(1, 2);
				let mut name = dns_name(rng, exotic);
				name = format!("{}{}", tag, name);
				let ch = ["http-01", "dns-01", "tls-alpn-01"][rng.below(3) as usize];
				IdentCfg {
					dns: Some(name),
					ip: None,
					challenge: ch.into(),
					env: BTreeMap::new(),
				}
			}
			5 | 6 => {
				let exotic = rng.chance(1, 3);
				let name = format!("*.{}{}", tag, dns_name(rng, exotic));
				IdentCfg {
					dns: Some(name),
					ip: None,
					challenge: "dns-01".into(),
					env: BTreeMap::new(),
				}
			}
			7 => IdentCfg {
				dns: None,
				ip: Some(ipv4(rng)),
				challenge: ["http-01", "tls-alpn-01"][rng.below(2) as usize].into(),
				env: BTreeMap::new(),
			},
			_ => IdentCfg {
				dns: None,
				ip: Some(ipv6(rng)),
				challenge: ["http-01", "tls-alpn-01"][rng.below(2) as usize].into(),
				env: BTreeMap::new(),
			},
		};
		let wire = expect::ident_wire(&id);
		// distinct wire forms, and a name and its wildcard never share the base name here
		// (families that want that pairing build it explicitly)
		let basekey = wire.1.trim_start_matches("*.").to_string();
		if wire.1.len() > 200 || !seen.insert(basekey) {
			continue;
		}
		out.push(id);
	}
	out
}

pub fn chall_args(name: &str) -> Vec<String> {
	vec![
		format!("hook={}", name),
		"identifier={{ identifier }}".into(),
		"identifier_tls_alpn={{ identifier_tls_alpn }}".into(),
		"challenge={{ challenge }}".into(),
		"file_name={{ file_name }}".into(),
		"proof={{ proof }}".into(),
		"raw_proof={{ raw_proof }}".into(),
		"is_clean_hook={{ is_clean_hook }}".into(),
	]
}

pub fn postop_args(name: &str) -> Vec<String> {
	vec![
		format!("hook={}", name),
		"identifiers={{ identifiers | join(',') }}".into(),
		"key_type={{ key_type }}".into(),
		"status={{ status }}".into(),
		"is_success={{ is_success }}".into(),
		"certificate_path={{ certificate_path }}".into(),
		"private_key_path={{ private_key_path }}".into(),
	]
}

pub fn file_args(name: &str) -> Vec<String> {
	vec![
		format!("hook={}", name),
		"f_file_name={{ file_name }}".into(),
		"file_directory={{ file_directory }}".into(),
		"file_path={{ file_path }}".into(),
	]
}

pub fn hook(name: &str, types: &[&str], args: Vec<String>) -> HookCfg {
	HookCfg {
		name: name.into(),
		types: types.iter().map(|s| s.to_string()).collect(),
		cmd: "simhook".into(),
		args: Some(args),
		..Default::default()
	}
}

/// The standard hook set: one hook per challenge type and its clean twin, one post-operation hook.
pub fn std_hooks() -> (Vec<HookCfg>, Vec<String>) {
	let mut hs = vec![];
	for (n, t) in [
		("http", "challenge-http-01"),
		("dns", "challenge-dns-01"),
		("tls", "challenge-tls-alpn-01"),
	]
	.iter()
	{
		hs.push(hook(
			&format!("h-{}", n),
			&[t],
			chall_args(&format!("h-{}", n)),
		));
		let clean = format!("{}-clean", t);
		hs.push(hook(
			&format!("h-{}-clean", n),
			&[clean.as_str()],
			chall_args(&format!("h-{}-clean", n)),
		));
	}
	hs.push(hook("h-post", &["post-operation"], postop_args("h-post")));
	let names = hs.iter().map(|h| h.name.clone()).collect();
	(hs, names)
}

pub fn account(name: &str, key_type: &str) -> AccountCfg {
	AccountCfg {
		name: name.into(),
		contacts: vec![format!("{}@example.org", name.replace(' ', "."))],
		key_type: Some(key_type.into()),
		..Default::default()
	}
}

pub fn default_sched(rng: &mut Rng) -> Sched {
	let mut s = Sched::default();
	let hi = [200u64, 5_000, 80_000, 2_000_000][rng.below(4) as usize];
	s.net_us = (100, hi);
	s.fs_us = (1, [5u64, 900, 20_000][rng.below(3) as usize]);
	s.proc_ms = (1, [2u64, 300, 5_000][rng.below(3) as usize]);
	s.zero_yield = rng.chance(1, 2);
	s.map_salt = rng.next_u64();
	s.lock_starved = rng.chance(1, 3);
	s.chunk = match rng.below(3) {
		0 => (1 << 20, 1 << 20),
		1 => (64, 4096),
		_ => (1, 200),
	};
	s
}

pub fn world_cfg(rng: &mut Rng) -> WorldCfg {
	WorldCfg {
		// 2026 .. 2060
		epoch_unix: 1_767_225_600 + rng.below(34 * 365 * 86400) as i64,
		umask: [0o022u32, 0o077, 0o027, 0o000][rng.below(4) as usize],
		proc_env: {
			let mut m = BTreeMap::new();
			m.insert("PATH".to_string(), "/usr/bin:/bin".to_string());
			m.insert("LANG".to_string(), "C.UTF-8".to_string());
			m
		},
		pre_files: vec![],
	}
}

/// One endpoint on CA 0, one account, `n` certificates with standard hooks.
pub fn simple_plan(rng: &mut Rng, n_certs: usize) -> Plan {
	let (hooks, names) = std_hooks();
	let mut certs = vec![];
	for i in 0..n_certs {
		let n = rng.range(1, 3) as usize;
		certs.push(CertCfg {
			name: None,
			account: "acc".into(),
			endpoint: "ep0".into(),
			identifiers: identifiers(rng, n, 0, &format!("c{}-", i)),
			key_type: Some("ecdsa-p256".into()),
			hooks: names.clone(),
			..Default::default()
		});
	}
	Plan {
		world: world_cfg(rng),
		config: Config {
			global: Global::default(),
			rate_limits: vec![],
			endpoints: vec![EndpointCfg {
				name: "ep0".into(),
				ca: 0,
				rate_limits: vec![],
				tos_agreed: true,
			}],
			hooks,
			groups: vec![],
			accounts: vec![account("acc", "ecdsa-p256")],
			certificates: certs,
		},
		cas: vec![CaCfg {
			host: "ca0.sim".into(),
			knobs: Knobs::default(),
		}],
		ops: vec![Op::Run {
			attempts: 1,
			max_virtual_s: 3600,
			only: vec![],
		}],
		faults: vec![],
		sched: default_sched(rng),
		..Default::default()
	}
}
