// F6: account histories: one account on 1..3 endpoints; histories of edits, restarts, renewals,
// CA amnesia, crashes in the middle of an account save, truncated account files.
use super::super::plan::*;
use super::super::prng::Rng;
use super::base::*;
use std::collections::BTreeMap;

pub const STEPS: [&str; 9] = [
	"contacts", "key", "both", "eab", "restart", "renew0", "renew1", "forget0", "forget1",
];

fn base(n_ep: usize, key: &str, salt: u64) -> Plan {
	let mut rng = Rng::new(0xF6 ^ salt);
	let (hooks, names) = std_hooks();
	let mut certs = vec![];
	for e in 0..n_ep {
		certs.push(CertCfg {
			name: Some(format!("on-ep{}", e)),
			account: "acc".into(),
			endpoint: format!("ep{}", e),
			identifiers: vec![IdentCfg {
				dns: Some(format!("h{}.f6.sim", e)),
				ip: None,
				challenge: "http-01".into(),
				env: BTreeMap::new(),
			}],
			key_type: Some("ecdsa-p256".into()),
			hooks: names.clone(),
			..Default::default()
		});
	}
	let mut acc = account("acc", key);
	acc.contacts = vec!["first@example.org".into()];
	let mut sched = Sched::default();
	sched.net_us = (100, 2000);
	sched.fs_us = (1, 50);
	sched.proc_ms = (1, 3);
	sched.chunk = (16, 96);
	sched.map_salt = salt;
	// a history that can never converge is retried in the daemon's tight loop: a normal history needs a
	// few thousand events, so the run is bounded well below the default cap
	sched.max_events = 40_000;
	Plan {
		world: {
			let mut w = world_cfg(&mut rng);
			w.umask = 0o022;
			w
		},
		config: Config {
			global: Global::default(),
			rate_limits: vec![],
			endpoints: (0..n_ep)
				.map(|e| EndpointCfg {
					name: format!("ep{}", e),
					ca: e,
					rate_limits: vec![],
					tos_agreed: true,
				})
				.collect(),
			hooks,
			groups: vec![],
			accounts: vec![acc],
			certificates: certs,
		},
		cas: (0..n_ep)
			.map(|e| CaCfg {
				host: format!("ca{}.sim", e),
				knobs: Knobs::default(),
			})
			.collect(),
		ops: vec![],
		faults: vec![],
		sched,
		..Default::default()
	}
}

fn renew(ops: &mut Vec<Op>, cert: usize) {
	ops.push(Op::Stop);
	ops.push(Op::RemoveFile {
		cert,
		which: "crt".into(),
	});
	// up to three attempts: a renewal that fails once must converge at the next ones
	ops.push(Op::Run {
		attempts: 1,
		max_virtual_s: 3000,
		only: vec![cert],
	});
}

/// Build the op list for a history given as step names.  `k` numbers the edits so that every
/// edit really changes something.
pub fn history(n_ep: usize, key0: &str, steps: &[&str], salt: u64) -> Plan {
	let mut p = base(n_ep, key0, salt);
	let mut ops = vec![Op::Run {
		attempts: 1,
		max_virtual_s: 3000,
		only: vec![],
	}];
	let keys = CHEAP_KEY_TYPES;
	let mut key_i = keys.iter().position(|k| *k == key0).unwrap_or(0);
	let mut eab_on = false;
	for (k, s) in steps.iter().enumerate() {
		match *s {
			"contacts" => {
				ops.push(Op::Stop);
				let cts: Vec<String> = (0..(k % 3))
					.map(|i| format!("c{}-{}@example.org", k, i))
					.collect();
				ops.push(Op::Edit {
					patch: vec![EditItem::Contacts {
						account: "acc".into(),
						contacts: cts,
					}],
				});
			}
			"key" => {
				ops.push(Op::Stop);
				key_i = (key_i + 1 + k) % keys.len();
				ops.push(Op::Edit {
					patch: vec![EditItem::KeyType {
						account: "acc".into(),
						key_type: keys[key_i].to_string(),
					}],
				});
			}
			"both" => {
				ops.push(Op::Stop);
				key_i = (key_i + 1 + k) % keys.len();
				ops.push(Op::Edit {
					patch: vec![
						EditItem::Contacts {
							account: "acc".into(),
							contacts: vec![format!("both{}@example.org", k)],
						},
						EditItem::KeyType {
							account: "acc".into(),
							key_type: keys[key_i].to_string(),
						},
					],
				});
			}
			"eab" => {
				ops.push(Op::Stop);
				eab_on = !eab_on;
				let eab = if eab_on {
					Some(EabCfg {
						identifier: format!("kid-{}", k),
						key: super::super::util::b64u(format!("eab-mac-key-{}", k).as_bytes()),
						signature_algorithm: None,
					})
				} else {
					None
				};
				ops.push(Op::Edit {
					patch: vec![EditItem::Eab {
						account: "acc".into(),
						eab,
					}],
				});
			}
			"restart" => ops.push(Op::Stop),
			"renew0" => renew(&mut ops, 0),
			"renew1" => renew(&mut ops, 1 % n_ep),
			"renew2" => renew(&mut ops, 2 % n_ep),
			"forget0" => ops.push(Op::CaForget {
				ca: 0,
				account: "acc".into(),
			}),
			"forget1" => ops.push(Op::CaForget {
				ca: 1 % n_ep,
				account: "acc".into(),
			}),
			_ => {}
		}
	}
	// finally every endpoint is renewed (with room to converge) so that the end state is judged
	for e in 0..n_ep {
		ops.push(Op::Stop);
		ops.push(Op::RemoveFile {
			cert: e,
			which: "crt".into(),
		});
		ops.push(Op::Run {
			attempts: 3,
			max_virtual_s: 6000,
			only: vec![e],
		});
	}
	p.ops = ops;
	p.note = format!("F6 {} endpoints, key {}, history {:?}", n_ep, key0, steps);
	p
}

/// random histories of length 1..6
pub fn random(rng: &mut Rng) -> Plan {
	let n_ep = rng.range(1, 3) as usize;
	let len = rng.range(1, 6) as usize;
	let mut steps: Vec<&str> = vec![];
	let pool = [
		"contacts", "key", "both", "eab", "restart", "renew0", "renew1", "renew2", "forget0",
		"forget1",
	];
	for _ in 0..len {
		steps.push(pool[rng.below(pool.len() as u64) as usize]);
	}
	let key0 = key_type(rng, false);
	let mut p = history(n_ep, &key0, &steps, rng.next_u64());
	p.sched.net_us.1 = [200u64, 5000, 50_000][rng.below(3) as usize];
	p.sched.zero_yield = rng.chance(1, 2);
	p
}

/// exhaustive: every history over STEPS of length <= 4, one and two endpoints
pub fn exhaustive(index: u64) -> Option<Plan> {
	let n = STEPS.len() as u64;
	// lengths 0..4: 1 + n + n^2 + n^3 + n^4 histories per endpoint count
	let per = 1 + n + n * n + n * n * n + n * n * n * n;
	if index >= 2 * per {
		return None;
	}
	let n_ep = 1 + (index / per) as usize;
	let mut rem = index % per;
	let mut len = 0;
	let mut block = 1;
	while rem >= block {
		rem -= block;
		block *= n;
		len += 1;
	}
	let mut steps = vec![];
	for _ in 0..len {
		steps.push(STEPS[(rem % n) as usize]);
		rem /= n;
	}
	Some(history(n_ep, "ecdsa-p256", &steps, index))
}

/// F6t: truncation of a saved account file at EVERY offset (one plan = one account shape; the sweep
/// over offsets happens inside the run).  Shapes: 6 key types x 1..3 endpoints x 0..2 superseded
/// keys x ASCII/Unicode name x with/without external binding.
pub fn truncation(shape: u64) -> Option<Plan> {
	if shape >= 6 * 3 * 3 * 2 * 2 {
		return None;
	}
	let key = KEY_TYPES[(shape % 6) as usize]; // rsa4096 excluded for cost
	let n_ep = 1 + ((shape / 6) % 3) as usize;
	let past = ((shape / 18) % 3) as usize;
	let unicode = (shape / 54) % 2 == 1;
	let eab = (shape / 108) % 2 == 1;
	let mut steps: Vec<&str> = vec![];
	if eab {
		steps.push("eab");
	}
	for _ in 0..past {
		steps.push("key");
		steps.push("renew0");
	}
	let mut p = history(n_ep, key, &steps, shape);
	let name = if unicode {
		"Ünï cødé 账户"
	} else {
		"acc"
	};
	if unicode {
		p.config.accounts[0].name = name.into();
		for c in p.config.certificates.iter_mut() {
			c.account = name.into();
		}
		for op in p.ops.iter_mut() {
			match op {
				Op::Edit { patch } => {
					for it in patch.iter_mut() {
						match it {
							EditItem::KeyType { account, .. }
							| EditItem::Contacts { account, .. }
							| EditItem::Eab { account, .. } => *account = name.into(),
							_ => {}
						}
					}
				}
				Op::CaForget { account, .. } => *account = name.into(),
				_ => {}
			}
		}
	}
	// drop the final convergence renewals; sweep all truncation offsets instead
	let keep = p.ops.len() - 3 * n_ep;
	p.ops.truncate(keep);
	p.ops.push(Op::TruncateSweep {
		account: name.into(),
		step: 1,
	});
	p.sched.max_events = 2_000_000;
	p.note = format!(
		"F6t shape {} (key {}, {} endpoints, {} superseded keys, unicode {}, eab {})",
		shape, key, n_ep, past, unicode, eab
	);
	Some(p)
}

/// F6c: the daemon dies in the middle of an account save (between chunks of the write), then is
/// started again and must converge.
pub fn crash_mid_save(rng: &mut Rng) -> Plan {
	let n_ep = rng.range(1, 2) as usize;
	let steps_pool = ["contacts", "key", "both", "renew0", "restart"];
	let mut steps: Vec<&str> = vec![];
	for _ in 0..rng.below(3) {
		steps.push(steps_pool[rng.below(steps_pool.len() as u64) as usize]);
	}
	let key0 = key_type(rng, false);
	let mut p = history(n_ep, &key0, &steps, rng.next_u64());
	p.sched.chunk = (8, 64);
	// replace the first Run by a crash at the n-th storage event, then go on
	let kind = [
		"fs_open",
		"fs_write",
		"net_reply",
		"hook_exit",
		"net_send",
		"net_deliver",
		"fs_close",
	][rng.below(7) as usize]
		.to_string();
	let crash = Op::CrashAt {
		kind,
		nth: rng.range(1, 6),
		max_virtual_s: 3000,
	};
	// bias: half of the crashes land right after a configuration edit, i.e. inside the traffic
	// that brings the CA's record into line (account update, key roll-over, their saves)
	let after_edit: Vec<usize> = p
		.ops
		.iter()
		.enumerate()
		.filter(|(_, o)| matches!(o, Op::Edit { .. }))
		.map(|(i, _)| i + 1)
		.collect();
	let pos = if !after_edit.is_empty() && rng.chance(1, 2) {
		after_edit[rng.below(after_edit.len() as u64) as usize]
	} else {
		rng.below(p.ops.len() as u64) as usize
	};
	p.ops.insert(pos, crash);
	// a roll-over that can never succeed again (processed by the CA, the daemon killed before
	// recording it) is retried in the tight loop: bound the run
	p.sched.max_events = 30_000;
	p
}

/// F6f: account histories in which ONE request of the synchronisation traffic (account update,
/// key roll-over, registration) is cut before delivery, processed but its reply lost, or refused
/// with an error; afterwards every endpoint is renewed with room to converge.
pub fn faulted(rng: &mut Rng) -> Plan {
	let n_ep = rng.range(1, 2) as usize;
	let pool = ["contacts", "key", "both", "restart", "renew0", "renew1"];
	let mut steps: Vec<&str> = vec![["contacts", "key", "both"][rng.below(3) as usize]];
	for _ in 0..rng.below(3) {
		steps.push(pool[rng.below(pool.len() as u64) as usize]);
	}
	let key0 = key_type(rng, false);
	let mut p = history(n_ep, &key0, &steps, rng.next_u64());
	let class = ["account", "account", "keyChange", "newAccount"][rng.below(4) as usize];
	let kind = match rng.below(5) {
		0 => FaultKind::Refuse,
		1 => FaultKind::ResetAfter,
		2 => FaultKind::Acme {
			typ: "unauthorized".into(),
			status: 403,
			detail: Some("injected".into()),
		},
		3 => FaultKind::Acme {
			typ: "serverInternal".into(),
			status: 500,
			detail: Some("injected".into()),
		},
		_ => FaultKind::Http {
			status: 502,
			body: "<html>bad gateway</html>".into(),
			content_type: "text/html".into(),
		},
	};
	let count = if matches!(kind, FaultKind::Acme { ref typ, .. } if typ == "serverInternal") {
		12
	} else {
		1
	};
	p.faults.push(Fault {
		site: "net".into(),
		ca: rng.below(n_ep as u64) as usize,
		class: class.into(),
		nth: if class == "newAccount" { 2 } else { 1 },
		count,
		kind,
		..Default::default()
	});
	// a request that can never succeed again (e.g. a roll-over whose reply was lost) makes the
	// daemon retry in its tight loop: bound the run
	p.sched.max_events = 30_000;
	p
}
