// Scenario families (DESIGN.md section 7 table).
use super::super::monitors::common::ACME_TYPES;
use super::super::plan::*;
use super::super::prng::Rng;
use super::base::*;
use std::collections::BTreeMap;

pub fn build(family: &str, rng: &mut Rng, index: u64) -> Option<Plan> {
	match family {
		"smoke" => Some(simple_plan(rng, 1 + (index % 2) as usize)),
		"F2p" => f2p(index),
		"F2n" => f2n(index),
		"F2q" => f2q(index),
		"F2m" => f2m(index),
		"F2" => f2(index),
		"F2b" => f2b(index),
		"F2h" => f2h(index),
		"F2f" => f2f(index),
		"F2s" => f2s(index),
		"F6k" => f6k(index),
		"F4" => Some(f4(rng, index)),
		"F4g" => f4g(index),
		"F4c" => f4c(index),
		"F4t" => f4t(index),
		"F4u" => f4u(index),
		"F1p" => f1p(index),
		"F1o" => f1o(index),
		"F1s" => f1s(index),
		// issuance swarm: standard hooks (C01/C04/C05/C13) and generated hook tables (C10)
		"F1" => Some(super::f1::build(
			rng,
			&super::f1::F1Opts {
				max_certs: 3,
				max_ids: 8,
				generated_hooks: false,
				hard_hook_failures: false,
				owners: true,
				eab: true,
				allow_rsa4096: index % 97 == 0,
			},
		)),
		"F6" => Some(super::f6::random(rng)),
		"F6x" => super::f6::exhaustive(index),
		"F6c" => Some(super::f6::crash_mid_save(rng)),
		"F6f" => Some(super::f6::faulted(rng)),
		"F6t" => super::f6::truncation(index),
		"F7" => Some(f7(rng, index)),
		"F5" => Some(f5(rng, index)),
		"F1w" => Some(f1w(rng, index)),
		"F1h" => Some(super::f1::build(
			rng,
			&super::f1::F1Opts {
				max_certs: 1 + (index % 2),
				max_ids: 4,
				generated_hooks: true,
				hard_hook_failures: index % 3 == 0,
				owners: false,
				eab: false,
				allow_rsa4096: false,
			},
		)),
		"F3" => Some(f3(rng, index)),
		"F3m" => Some(f3m(rng, index)),
		_ => None,
	}
}

/// decompose `index` over the given dimension sizes (first dimension varies slowest)
pub fn grid(index: u64, dims: &[u64]) -> Option<Vec<u64>> {
	let total: u64 = dims.iter().product();
	if index >= total {
		return None;
	}
	let mut rem = index;
	let mut out = vec![0; dims.len()];
	for i in (0..dims.len()).rev() {
		out[i] = rem % dims[i];
		rem /= dims[i];
	}
	Some(out)
}

fn ident(dns: &str, ch: &str) -> IdentCfg {
	IdentCfg {
		dns: Some(dns.into()),
		ip: None,
		challenge: ch.into(),
		env: BTreeMap::new(),
	}
}

/// The fixed base plan of the exhaustive grids: one certificate, two identifiers (http-01 and
/// dns-01), P-256 keys, standard hooks, CA with default behaviour.  `variant` picks kp_reuse and
/// whether a matching pair pre-exists (C03 needs all four).
pub fn grid_base(variant: u64, attempts: u32) -> Plan {
	let mut rng = Rng::new(0xBA5E ^ variant);
	let (hooks, names) = std_hooks();
	let kp_reuse = variant & 1 == 1;
	let pre_pair = variant & 2 == 2;
	let cert = CertCfg {
		name: Some("grid".into()),
		account: "acc".into(),
		endpoint: "ep0".into(),
		identifiers: vec![
			ident("a.grid.sim", "http-01"),
			ident("b.grid.sim", "dns-01"),
		],
		key_type: Some("ecdsa-p256".into()),
		kp_reuse: Some(kp_reuse),
		hooks: names,
		..Default::default()
	};
	let mut world = world_cfg(&mut rng);
	world.umask = 0o022;
	if pre_pair {
		world.pre_files = vec![
			PreFile {
				target: "pk:0".into(),
				content: "key:ecdsa-p256".into(),
				lifetime_s: 0,
				mode: Some(0o600),
			},
			PreFile {
				target: "crt:0".into(),
				// expires in 10 days: inside the default 30-day renew_delay, so the daemon renews at once
				content: "pair".into(),
				lifetime_s: 10 * 86400,
				mode: Some(0o644),
			},
		];
	}
	let mut sched = Sched::default();
	sched.net_us = (100, 3000);
	sched.fs_us = (1, 50);
	sched.proc_ms = (1, 5);
	sched.map_salt = variant;
	Plan {
		world,
		config: Config {
			global: Global::default(),
			rate_limits: vec![],
			endpoints: vec![EndpointCfg {
				name: "ep0".into(),
				ca: 0,
				rate_limits: vec![],
				tos_agreed: true,
			}],
			hooks,
			groups: vec![],
			accounts: vec![account("acc", "ecdsa-p256")],
			certificates: vec![cert],
		},
		cas: vec![CaCfg {
			host: "ca0.sim".into(),
			knobs: Knobs::default(),
		}],
		ops: vec![Op::Run {
			attempts,
			max_virtual_s: 7200,
			only: vec![],
		}],
		faults: vec![],
		sched,
		..Default::default()
	}
}

/// POST positions of the grid base plan's first attempt: (class, nth transmission of that class)
pub const POST_POSITIONS: [(&str, u64); 12] = [
	("newAccount", 1),
	("newOrder", 1),
	("authz", 1),
	("challenge", 1),
	("authzPoll", 1),
	("authz", 2),
	("challenge", 2),
	("authzPoll", 2),
	("orderPollReady", 1),
	("finalize", 1),
	("orderPollValid", 1),
	("certificate", 1),
];

pub const ALL_POSITIONS: [(&str, u64); 14] = [
	("directory", 1),
	("newNonce", 1),
	("newAccount", 1),
	("newOrder", 1),
	("authz", 1),
	("challenge", 1),
	("authzPoll", 1),
	("authz", 2),
	("challenge", 2),
	("authzPoll", 2),
	("orderPollReady", 1),
	("finalize", 1),
	("orderPollValid", 1),
	("certificate", 1),
];

fn status_for(typ: &str, salt: u64) -> u16 {
	match typ {
		"rateLimited" => 429,
		"serverInternal" => [500, 503][(salt % 2) as usize],
		"unauthorized" | "caa" | "orderNotReady" | "userActionRequired" => 403,
		_ => 400,
	}
}

/// the error answers of the grids: 24 ACME types, unknown type, absent type, non-JSON, empty,
/// JSON that is not a problem document
pub fn error_kinds() -> Vec<FaultKind> {
	let mut v = vec![];
	for (i, t) in ACME_TYPES.iter().enumerate() {
		v.push(FaultKind::Acme {
			typ: t.to_string(),
			status: status_for(t, i as u64),
			detail: Some(format!("injected {}", t)),
		});
	}
	v.push(FaultKind::Acme {
		typ: "somethingBrandNew".into(),
		status: 400,
		detail: Some("injected unknown type".into()),
	});
	v.push(FaultKind::Acme {
		typ: String::new(),
		status: 500,
		detail: Some("injected typeless problem".into()),
	});
	v.push(FaultKind::Http {
		status: 502,
		body: "<html><body>Bad gateway</body></html>".into(),
		content_type: "text/html".into(),
	});
	v.push(FaultKind::Http {
		status: 503,
		body: String::new(),
		content_type: String::new(),
	});
	v.push(FaultKind::Http {
		status: 404,
		body: "{\"message\":\"not a problem document\"}".into(),
		content_type: "application/json".into(),
	});
	v
}

/// F2p: every POST position x every error answer x run length 1..12 (exhaustive grid)
fn f2p(index: u64) -> Option<Plan> {
	let kinds = error_kinds();
	let g = grid(
		index,
		&[POST_POSITIONS.len() as u64, kinds.len() as u64, 12],
	)?;
	let (class, nth) = POST_POSITIONS[g[0] as usize];
	let mut p = grid_base(0, 1);
	p.faults.push(Fault {
		site: "net".into(),
		ca: 0,
		class: class.into(),
		nth,
		count: g[2] + 1,
		kind: kinds[g[1] as usize].clone(),
		..Default::default()
	});
	p.note = format!(
		"F2p {}#{} x {} x run {}",
		class,
		nth,
		super::super::ca::fault_name(&kinds[g[1] as usize]),
		g[2] + 1
	);
	Some(p)
}

/// F2n: objects that never reach the awaited status, at every polling phase, alone and combined
/// with slow-but-finite objects (polls just below / at / above the bound)
fn f2n(index: u64) -> Option<Plan> {
	let polls = [0u32, 1, 5, 18, 19, 20, 21, 1000];
	let g = grid(index, &[3, polls.len() as u64])?;
	let mut p = grid_base(0, 1);
	let n = polls[g[1] as usize];
	match g[0] {
		0 => p.cas[0].knobs.polls_authz = n,
		1 => p.cas[0].knobs.polls_ready = n,
		_ => p.cas[0].knobs.polls_valid = n,
	}
	p.ops = vec![Op::Run {
		attempts: 1,
		max_virtual_s: 86400,
		only: vec![],
	}];
	p.note = format!("F2n phase {} stays non-final for {} polls", g[0], n);
	Some(p)
}

/// every network/CA fault kind of the catalogue (DESIGN.md section 5)
pub fn net_fault_kinds() -> Vec<FaultKind> {
	let mut v = error_kinds();
	v.push(FaultKind::Http {
		status: 200,
		body: "{\"type\":\"urn:ietf:params:acme:error:serverInternal\",\"detail\":\"problem document on a 2xx\",\"status\":500}".into(),
		content_type: "application/problem+json".into(),
	});
	v.push(FaultKind::Refuse);
	v.push(FaultKind::ResetAfter);
	v.push(FaultKind::Delay { ms: 90_000 });
	v.push(FaultKind::DropHeader {
		name: "Location".into(),
	});
	v.push(FaultKind::DropHeader {
		name: "Replay-Nonce".into(),
	});
	v.push(FaultKind::BadNonceHeader);
	v.push(FaultKind::NotJson);
	for f in [
		"status",
		"authorizations",
		"finalize",
		"identifier",
		"identifiers",
		"challenges",
		"certificate",
		"newNonce",
		"newAccount",
		"newOrder",
		"keyChange",
		"orders",
	]
	.iter()
	{
		v.push(FaultKind::DropField {
			name: f.to_string(),
		});
	}
	for (f, val) in [
		("status", serde_json::json!("bogus")),
		("status", serde_json::json!("invalid")),
		("status", serde_json::json!("deactivated")),
		("status", serde_json::json!("expired")),
		("status", serde_json::json!("revoked")),
		("status", serde_json::json!("processing")),
		("status", serde_json::json!(7)),
		("authorizations", serde_json::json!("not-a-list")),
		("challenges", serde_json::json!([{"type": "http-01"}])),
		("error", serde_json::json!({"type": "urn:ietf:params:acme:error:caa", "detail": "injected object error", "status": 403})),
		("certificate", serde_json::json!("https://ca0.sim/cert/99999")),
	]
	.iter()
	{
		v.push(FaultKind::SetField {
			name: f.to_string(),
			value: val.clone(),
		});
	}
	for what in ["garbage", "empty", "other_key", "truncated", "not_utf8", "issuer_first", "leaf_then_truncated"].iter() {
		v.push(FaultKind::CertBody {
			what: what.to_string(),
		});
	}
	v
}

/// F2: the exhaustive single-fault grid: 4 base plans (kp_reuse x pre-existing pair) x every
/// request position x every network/CA fault kind; two attempts of the certificate.
fn f2(index: u64) -> Option<Plan> {
	let kinds = net_fault_kinds();
	let g = grid(index, &[4, ALL_POSITIONS.len() as u64, kinds.len() as u64])?;
	let (class, nth) = ALL_POSITIONS[g[1] as usize];
	let mut p = grid_base(g[0], 2);
	p.faults.push(Fault {
		site: "net".into(),
		ca: 0,
		class: class.into(),
		nth,
		count: 1,
		kind: kinds[g[2] as usize].clone(),
		..Default::default()
	});
	p.note = format!(
		"F2 base {} {}#{} x {}",
		g[0],
		class,
		nth,
		super::super::ca::fault_name(&kinds[g[2] as usize])
	);
	Some(p)
}

const CLASSES: [&str; 13] = [
	"directory",
	"newNonce",
	"newAccount",
	"newOrder",
	"authz",
	"challenge",
	"authzPoll",
	"orderPollReady",
	"finalize",
	"orderPollValid",
	"certificate",
	"account",
	"keyChange",
];

/// F3: random multi-fault sequences (1..6 network/CA faults placed inside operations) over 1..4
/// consecutive attempts, then a fault-free tail.  With and without a pre-existing pair, kp_reuse
/// on/off, 1..3 identifiers, several key types.
fn f3(rng: &mut Rng, _index: u64) -> Plan {
	let mut p = grid_base(rng.below(4), 1);
	let n_ids = rng.range(1, 3) as usize;
	let chs = ["http-01", "dns-01", "tls-alpn-01"];
	p.config.certificates[0].identifiers = (0..n_ids)
		.map(|i| ident(&format!("n{}.f3.sim", i), chs[rng.below(3) as usize]))
		.collect();
	p.config.certificates[0].key_type = Some(CHEAP_KEY_TYPES[rng.below(5) as usize].to_string());
	if !p.world.pre_files.is_empty() {
		p.world.pre_files[0].content =
			format!("key:{}", p.config.certificates[0].key_type.clone().unwrap());
	}
	p.config.accounts[0].key_type = Some(CHEAP_KEY_TYPES[rng.below(5) as usize].to_string());
	p.sched = default_sched(rng);
	p.sched.net_us.1 = p.sched.net_us.1.min(80_000);
	let kinds = net_fault_kinds();
	let n_faults = rng.range(1, 6);
	for _ in 0..n_faults {
		let class = CLASSES[rng.below(11) as usize];
		p.faults.push(Fault {
			site: "net".into(),
			ca: 0,
			class: class.into(),
			nth: rng.range(1, 4),
			count: if rng.chance(1, 4) {
				rng.range(2, 12)
			} else {
				1
			},
			kind: kinds[rng.below(kinds.len() as u64) as usize].clone(),
			..Default::default()
		});
	}
	let attempts = rng.range(1, 4) as u32;
	let tail = 14 + p.faults.iter().map(|f| f.count as u32).sum::<u32>();
	p.ops = vec![
		Op::Run {
			attempts,
			max_virtual_s: 20_000,
			only: vec![],
		},
		// fault-free tail: long enough for every remaining scripted fault to be consumed or skipped
		Op::Run {
			attempts: tail,
			max_virtual_s: 100_000,
			only: vec![],
		},
	];
	p
}

/// F3m: 1..6 certificates sharing one account and one endpoint; any subset fails permanently
/// (every request of its orders answered with an error, or its challenge hook failing); the others
/// must be issued.
fn f3m(rng: &mut Rng, _index: u64) -> Plan {
	let n = rng.range(1, 6) as usize;
	let mut p = simple_plan(rng, n);
	p.sched.net_us.1 = p.sched.net_us.1.min(80_000);
	let kinds = error_kinds();
	let mut any_healthy = false;
	for i in 0..n {
		let fail = rng.chance(1, 2) && !(i + 1 == n && !any_healthy);
		if !fail {
			any_healthy = true;
			continue;
		}
		let class = [
			"newOrder",
			"authz",
			"challenge",
			"finalize",
			"certificate",
			"authzPoll",
		][rng.below(6) as usize];
		p.faults.push(Fault {
			site: "net".into(),
			ca: 0,
			class: class.into(),
			nth: 1,
			count: 1_000_000_000,
			cert: Some(i),
			kind: kinds[rng.below(kinds.len() as u64) as usize].clone(),
			..Default::default()
		});
	}
	// the healthy ones need one attempt each; the failing ones loop meanwhile
	let healthy: Vec<usize> = (0..n)
		.filter(|i| !p.faults.iter().any(|f| f.cert == Some(*i)))
		.collect();
	p.ops = vec![Op::Run {
		attempts: 1,
		max_virtual_s: 3_000,
		only: healthy,
	}];
	p.sched.max_events = 100_000;
	p
}

const PERIODS: [&str; 12] = [
	"0s",
	"1s",
	"90s",
	"1h",
	"36h",
	"1d",
	"2w",
	"30d",
	"45d12h",
	"100d",
	"1w2d3h4m5s",
	"400d",
];
const LIFETIMES: [i64; 12] = [
	-86400,
	0,
	60,
	3600,
	86400,
	7 * 86400,
	30 * 86400,
	90 * 86400,
	90 * 86400,
	365 * 86400,
	3650 * 86400,
	398 * 86400,
];

/// F4: renewal histories over months..years of virtual time: lifetimes, chain lengths and SAN
/// modes vary per issuance; renew_delay / random_early_renew incl. 0 and values above the lifetime;
/// restarts with a file removed or the clock stepped; jitter at both ends.
fn f4(rng: &mut Rng, _index: u64) -> Plan {
	let n = if rng.chance(1, 4) { 2 } else { 1 };
	let mut p = simple_plan(rng, n);
	for (i, c) in p.config.certificates.iter_mut().enumerate() {
		let k = rng.range(1, 3) as usize;
		c.identifiers = identifiers(rng, k, 1, &format!("r{}-", i));
		// challenge types the default CA offers for every identifier kind
		c.key_type = Some(CHEAP_KEY_TYPES[rng.below(5) as usize].to_string());
		c.kp_reuse = Some(rng.chance(1, 3));
		if rng.chance(4, 5) {
			c.renew_delay = Some(PERIODS[rng.below(PERIODS.len() as u64) as usize].to_string());
		}
		if rng.chance(3, 5) {
			c.random_early_renew =
				Some(PERIODS[rng.below(PERIODS.len() as u64) as usize].to_string());
		}
	}
	if rng.chance(1, 5) {
		p.config.global.renew_delay =
			Some(PERIODS[rng.below(PERIODS.len() as u64) as usize].to_string());
	}
	let k = &mut p.cas[0].knobs;
	k.lifetime_s = (0..rng.range(1, 4))
		.map(|_| LIFETIMES[rng.below(LIFETIMES.len() as u64) as usize])
		.collect();
	k.chain_len = (0..rng.range(1, 4))
		.map(|_| rng.range(1, 4) as u32)
		.collect();
	k.san_mode = match rng.below(10) {
		0 => "permuted".into(),
		1 => "extra".into(),
		2 => "drop_last".into(),
		_ => "as_requested".into(),
	};
	k.nonce_on_get = rng.chance(1, 2);
	p.sched.jitter = ["seeded", "min", "max"][rng.below(3) as usize].to_string();
	p.sched.net_us.1 = p.sched.net_us.1.min(80_000);
	let horizon = 4000 * 86400;
	let mut ops = vec![Op::Run {
		attempts: rng.range(1, 4) as u32,
		max_virtual_s: horizon,
		only: vec![],
	}];
	for _ in 0..rng.below(3) {
		ops.push(Op::Stop);
		match rng.below(4) {
			0 => ops.push(Op::RemoveFile {
				cert: rng.below(n as u64) as usize,
				which: "crt".into(),
			}),
			1 => ops.push(Op::RemoveFile {
				cert: rng.below(n as u64) as usize,
				which: "pk".into(),
			}),
			2 => ops.push(Op::Skew {
				seconds: [-86400 * 40, -3600, 3600, 86400 * 40, 86400 * 400][rng.below(5) as usize],
			}),
			_ => {}
		}
		ops.push(Op::Run {
			attempts: rng.range(1, 3) as u32,
			max_virtual_s: horizon,
			only: vec![],
		});
	}
	p.ops = ops;
	p
}

/// F1w: identifier sets in which a name and its wildcard (and several names) use different
/// challenge types, in both declaration orders; all 3x3 (base, wildcard) type pairs are cycled
/// through by the index (wildcards with http-01/tls-alpn-01 need a CA that offers them).
fn f1w(rng: &mut Rng, index: u64) -> Plan {
	let opts = super::f1::F1Opts {
		max_certs: 2,
		max_ids: 3,
		generated_hooks: false,
		hard_hook_failures: false,
		owners: false,
		eab: false,
		allow_rsa4096: false,
	};
	let mut p = super::f1::build(rng, &opts);
	let chs = ["http-01", "dns-01", "tls-alpn-01"];
	let base_ch = chs[(index % 3) as usize];
	let wild_ch = chs[((index / 3) % 3) as usize];
	let wild_first = (index / 9) % 2 == 0;
	let name = format!("pair{}.{}", index % 1000, dns_name(rng, false));
	let mut pair = vec![
		ident(&name, base_ch),
		ident(&format!("*.{}", name), wild_ch),
	];
	if wild_first {
		pair.reverse();
	}
	let c = &mut p.config.certificates[0];
	let keep: Vec<IdentCfg> = c.identifiers.drain(..).take(1).collect();
	c.identifiers = if rng.chance(1, 2) {
		pair.into_iter().chain(keep.into_iter()).collect()
	} else {
		keep.into_iter().chain(pair.into_iter()).collect()
	};
	for ca in p.cas.iter_mut() {
		ca.knobs.offer = vec!["http-01".into(), "dns-01".into(), "tls-alpn-01".into()];
		ca.knobs.wildcard_any = wild_ch != "dns-01" || rng.chance(1, 2);
		ca.knobs.authz_status = vec![];
	}
	p
}

/// F7: limiter swarm: 1..6 certificates and 1..3 accounts on ONE endpoint with 1..3 limits
/// (n in 1..20, periods 1 s..10 s plus minute/hour periods), bursts after idle (short lifetimes =>
/// renewals), retry storms from scripted recoverable errors.
fn f7(rng: &mut Rng, _index: u64) -> Plan {
	let n = rng.range(1, 6) as usize;
	let mut p = simple_plan(rng, n);
	let n_acc = rng.range(1, 3) as usize;
	p.config.accounts = (0..n_acc)
		.map(|a| account(&format!("acc{}", a), CHEAP_KEY_TYPES[rng.below(5) as usize]))
		.collect();
	for c in p.config.certificates.iter_mut() {
		c.account = format!("acc{}", rng.below(n_acc as u64));
	}
	let n_lim = rng.range(1, 3);
	let mut names = vec![];
	for i in 0..n_lim {
		let (number, period) = match rng.below(8) {
			0 => (rng.range(20, 120), "1m".to_string()),
			1 => (rng.range(100, 400), "1h".to_string()),
			2 => (rng.range(1, 3), "1s".to_string()),
			_ => (rng.range(1, 20), format!("{}s", rng.range(1, 10))),
		};
		p.config.rate_limits.push(RateLimitCfg {
			name: format!("rl{}", i),
			number,
			period,
		});
		names.push(format!("rl{}", i));
	}
	p.config.endpoints[0].rate_limits = names;
	let k = &mut p.cas[0].knobs;
	k.nonce_on_get = rng.chance(1, 2);
	k.polls_authz = rng.below(3) as u32;
	k.polls_valid = rng.below(3) as u32;
	k.bad_nonce_every = [0u64, 0, 2, 5][rng.below(4) as usize];
	let renewals = rng.chance(1, 2);
	if renewals {
		k.lifetime_s = vec![3600];
	}
	if rng.chance(1, 3) {
		// a retry storm: a run of recoverable errors somewhere
		let kinds = ["badNonce", "rateLimited", "serverInternal", "connection"];
		p.faults.push(Fault {
			site: "net".into(),
			ca: 0,
			class: ["newOrder", "authz", "challenge", "finalize", "authzPoll"]
				[rng.below(5) as usize]
				.into(),
			nth: rng.range(1, 3),
			count: rng.range(1, 9),
			kind: FaultKind::Acme {
				typ: kinds[rng.below(4) as usize].into(),
				status: 400,
				detail: Some("retry storm".into()),
			},
			..Default::default()
		});
	}
	p.sched.net_us = (100, [200u64, 5_000, 80_000][rng.below(3) as usize]);
	p.ops = vec![Op::Run {
		attempts: if renewals { rng.range(2, 3) as u32 } else { 1 },
		max_virtual_s: 400_000,
		only: vec![],
	}];
	if !p.faults.is_empty() {
		// a storm may exhaust the 10 transmissions of one request: give the attempt(s) room to be redone
		p.ops.push(Op::Run {
			attempts: 3,
			max_virtual_s: 400_000,
			only: vec![],
		});
	}
	p.sched.max_events = 400_000;
	p
}

/// F5: concurrency: 2..8 certificates over 1..3 accounts and 1..3 endpoints in every sharing
/// pattern; latency / tie-break / zero-yield / lock-fairness swarm; first registration raced;
/// CA-forgotten accounts and pending contact/key changes (the paths that take the write locks).
fn f5(rng: &mut Rng, _index: u64) -> Plan {
	let n = rng.range(2, 8) as usize;
	let mut p = simple_plan(rng, n);
	let n_acc = rng.range(1, 3) as usize;
	let n_ep = rng.range(1, 3) as usize;
	p.config.accounts = (0..n_acc)
		.map(|a| account(&format!("acc{}", a), CHEAP_KEY_TYPES[rng.below(5) as usize]))
		.collect();
	p.config.endpoints = (0..n_ep)
		.map(|e| EndpointCfg {
			name: format!("ep{}", e),
			ca: e,
			rate_limits: vec![],
			tos_agreed: true,
		})
		.collect();
	p.cas = (0..n_ep)
		.map(|e| CaCfg {
			host: format!("ca{}.sim", e),
			knobs: super::f1::ca_knobs(
				rng,
				&[
					"http-01".to_string(),
					"dns-01".to_string(),
					"tls-alpn-01".to_string(),
				],
			),
		})
		.collect();
	for ca in p.cas.iter_mut() {
		ca.knobs.offer = vec!["http-01".into(), "dns-01".into(), "tls-alpn-01".into()];
		ca.knobs.nonce_ttl_s = None;
		ca.knobs.lifetime_s = vec![3600];
	}
	for c in p.config.certificates.iter_mut() {
		c.account = format!("acc{}", rng.below(n_acc as u64));
		c.endpoint = format!("ep{}", rng.below(n_ep as u64));
	}
	p.sched.net_us = (
		100,
		[150u64, 2_000, 80_000, 1_000_000][rng.below(4) as usize],
	);
	let mut ops = vec![Op::Run {
		attempts: 1,
		max_virtual_s: 50_000,
		only: vec![],
	}];
	for _ in 0..rng.below(3) {
		match rng.below(4) {
			0 => {
				ops.push(Op::CaForget {
					ca: rng.below(n_ep as u64) as usize,
					account: format!("acc{}", rng.below(n_acc as u64)),
				});
				ops.push(Op::Run {
					attempts: 2,
					max_virtual_s: 50_000,
					only: vec![],
				});
			}
			1 => {
				ops.push(Op::Stop);
				let a = format!("acc{}", rng.below(n_acc as u64));
				ops.push(Op::Edit {
					patch: vec![EditItem::Contacts {
						account: a,
						contacts: vec![format!("new{}@example.org", rng.below(100))],
					}],
				});
				ops.push(Op::Run {
					attempts: 1,
					max_virtual_s: 50_000,
					only: vec![],
				});
			}
			2 => {
				ops.push(Op::Stop);
				let a = format!("acc{}", rng.below(n_acc as u64));
				ops.push(Op::Edit {
					patch: vec![EditItem::KeyType {
						account: a,
						key_type: CHEAP_KEY_TYPES[rng.below(5) as usize].to_string(),
					}],
				});
				ops.push(Op::Run {
					attempts: 1,
					max_virtual_s: 50_000,
					only: vec![],
				});
			}
			_ => ops.push(Op::Run {
				attempts: 1,
				max_virtual_s: 50_000,
				only: vec![],
			}),
		}
	}
	p.ops = ops;
	p
}

/// F2b: the single-fault grid on 24 further base plans: (kp_reuse x pre-existing pair) x key type
/// {ecdsa-p384, ed25519, rsa2048} x identifier sets {one http-01 name, three names with three
/// challenge types}.  Thorough tier.
fn f2b(index: u64) -> Option<Plan> {
	let kinds = net_fault_kinds();
	let g = grid(index, &[24, ALL_POSITIONS.len() as u64, kinds.len() as u64])?;
	let v = g[0];
	let (class, nth) = ALL_POSITIONS[g[1] as usize];
	let mut p = grid_base(v % 4, 2);
	let kt = ["ecdsa-p384", "ed25519", "rsa2048"][((v / 4) % 3) as usize];
	p.config.certificates[0].key_type = Some(kt.into());
	if !p.world.pre_files.is_empty() {
		p.world.pre_files[0].content = format!("key:{}", kt);
	}
	p.config.certificates[0].identifiers = if (v / 12) % 2 == 0 {
		vec![ident("only.grid.sim", "http-01")]
	} else {
		vec![
			ident("a.grid.sim", "tls-alpn-01"),
			ident("b.grid.sim", "dns-01"),
			ident("c.grid.sim", "http-01"),
		]
	};
	p.config.accounts[0].key_type =
		Some(["ed448", "ecdsa-p521", "ecdsa-p256"][((v / 4) % 3) as usize].into());
	p.faults.push(Fault {
		site: "net".into(),
		ca: 0,
		class: class.into(),
		nth,
		count: 1,
		kind: kinds[g[2] as usize].clone(),
		..Default::default()
	});
	p.note = format!(
		"F2b base {} {}#{} x {}",
		v,
		class,
		nth,
		super::super::ca::fault_name(&kinds[g[2] as usize])
	);
	Some(p)
}

const HOOK_EXITS: [i32; 7] = [1, 2, 126, 127, 255, -1, -2];

/// F2h: every hook of the base plan (challenge, clean, post-operation and a file hook attached to
/// certificate and account) x invocation 1..3 x exit status kind (codes, death by signal, spawn
/// failure) x 4 base plans; two attempts.
fn f2h(index: u64) -> Option<Plan> {
	let hooks = [
		"h-http",
		"h-http-clean",
		"h-dns",
		"h-dns-clean",
		"h-post",
		"h-file",
	];
	let g = grid(index, &[4, hooks.len() as u64, 3, HOOK_EXITS.len() as u64])?;
	let mut p = grid_base(g[0], 2);
	let hf = hook(
		"h-file",
		&[
			"file-pre-create",
			"file-post-create",
			"file-pre-edit",
			"file-post-edit",
		],
		file_args("h-file"),
	);
	p.config.hooks.push(hf);
	p.config.certificates[0].hooks.push("h-file".into());
	p.config.accounts[0].hooks = vec!["h-file".into()];
	p.faults.push(Fault {
		site: "proc".into(),
		hook: hooks[g[1] as usize].into(),
		nth: g[2] + 1,
		count: 1,
		kind: FaultKind::Exit {
			code: HOOK_EXITS[g[3] as usize],
		},
		..Default::default()
	});
	p.ops = vec![
		Op::Run {
			attempts: 2,
			max_virtual_s: 7200,
			only: vec![],
		},
		Op::Run {
			attempts: 2,
			max_virtual_s: 7200,
			only: vec![],
		},
	];
	p.note = format!(
		"F2h base {} hook {} call {} exit {}",
		g[0],
		hooks[g[1] as usize],
		g[2] + 1,
		HOOK_EXITS[g[3] as usize]
	);
	Some(p)
}

/// F2s: storage errors (EIO, ENOSPC, EACCES) at every file operation of the base plan: open for
/// read/write, read, write (before any byte / after a short write) of key, certificate and account
/// files.  Outside C07's statement (it names CA, network and hooks): used for the panic / deadlock
/// / termination oracles only.
fn f2s(index: u64) -> Option<Plan> {
	let sels = ["pk:0", "crt:0", "account:acc"];
	let ops = ["open_w", "open_r", "read", "write"];
	let errs = ["EIO", "ENOSPC", "EACCES"];
	let g = grid(
		index,
		&[
			4,
			sels.len() as u64,
			ops.len() as u64,
			errs.len() as u64,
			2,
			2,
		],
	)?;
	let mut p = grid_base(g[0], 2);
	p.faults.push(Fault {
		site: "fs".into(),
		path: sels[g[1] as usize].into(),
		fsop: ops[g[2] as usize].into(),
		nth: g[4] + 1,
		count: 1,
		kind: FaultKind::Errno {
			errno: errs[g[3] as usize].into(),
			after: if g[5] == 0 { 0 } else { 57 },
		},
		..Default::default()
	});
	p.sched.chunk = (16, 64);
	p.ops = vec![
		Op::Run {
			attempts: 2,
			max_virtual_s: 7200,
			only: vec![],
		},
		Op::Run {
			attempts: 2,
			max_virtual_s: 7200,
			only: vec![],
		},
	];
	p.note = format!(
		"F2s base {} {} {} {} nth {} after {}",
		g[0],
		sels[g[1] as usize],
		ops[g[2] as usize],
		errs[g[3] as usize],
		g[4] + 1,
		g[5]
	);
	Some(p)
}

/// F6k: all 42 ordered pairs of account key types: register with A, change the configuration to B,
/// renew (key roll-over A -> B), renew once more.
fn f6k(index: u64) -> Option<Plan> {
	let g = grid(index, &[7, 6])?;
	let a = KEY_TYPES[g[0] as usize];
	let b = KEY_TYPES.iter().filter(|k| **k != a).nth(g[1] as usize)?;
	let mut p = super::f6::history(1, a, &[], index);
	let keep = p.ops.len() - 3;
	p.ops.truncate(keep);
	p.ops.push(Op::Stop);
	p.ops.push(Op::Edit {
		patch: vec![EditItem::KeyType {
			account: "acc".into(),
			key_type: b.to_string(),
		}],
	});
	for _ in 0..2 {
		p.ops.push(Op::Stop);
		p.ops.push(Op::RemoveFile {
			cert: 0,
			which: "crt".into(),
		});
		p.ops.push(Op::Run {
			attempts: 2,
			max_virtual_s: 6000,
			only: vec![0],
		});
	}
	p.note = format!("F6k roll-over {} -> {}", a, b);
	Some(p)
}

/// F4g: exhaustive boundary grid for the renewal date: certificate lifetime L in {1 h, 1 d, 90 d} x
/// renew_delay in {0, 1 s, L - 1 s, L, L + 1 s, 10 L} x random_early_renew in {absent, 0, 1 s, L/2,
/// L, 10 L} x jitter source {min, max, seeded}: one issuance, then two renewals are observed.
fn f4g(index: u64) -> Option<Plan> {
	let lifes = [3600u64, 86_400, 90 * 86_400];
	let g = grid(index, &[3, 6, 6, 3])?;
	let l = lifes[g[0] as usize];
	let rd = [0, 1, l - 1, l, l + 1, 10 * l][g[1] as usize];
	let rer: Option<u64> =
		[None, Some(0), Some(1), Some(l / 2), Some(l), Some(10 * l)][g[2] as usize];
	let mut rng = Rng::new(0xF46 ^ index);
	let mut p = simple_plan(&mut rng, 1);
	p.config.certificates[0].renew_delay = Some(format!("{}s", rd));
	p.config.certificates[0].random_early_renew = rer.map(|r| format!("{}s", r));
	p.cas[0].knobs.lifetime_s = vec![l as i64];
	p.sched.jitter = ["min", "max", "seeded"][g[3] as usize].into();
	p.sched.net_us = (100, 2000);
	p.ops = vec![Op::Run {
		attempts: 3,
		max_virtual_s: 3 * l + 100_000,
		only: vec![],
	}];
	p.note = format!(
		"F4g lifetime {} s renew_delay {} s random_early_renew {:?} jitter {}",
		l, rd, rer, p.sched.jitter
	);
	Some(p)
}

/// F4c: every ordered pair of chain lengths 1..4 x 3 key families x LF/CRLF line endings of the
/// served chain: two successive issuances of one certificate (the second over the first), kp_reuse off.
fn f4c(index: u64) -> Option<Plan> {
	let g = grid(index, &[4, 4, 3, 2])?;
	let mut rng = Rng::new(0xF4C ^ index);
	let mut p = simple_plan(&mut rng, 1);
	p.config.certificates[0].key_type =
		Some(["ecdsa-p256", "ed25519", "rsa2048"][g[2] as usize].into());
	p.config.certificates[0].kp_reuse = Some(false);
	p.cas[0].knobs.chain_len = vec![g[0] as u32 + 1, g[1] as u32 + 1];
	p.cas[0].knobs.lifetime_s = vec![3600];
	p.cas[0].knobs.pem_crlf = g[3] == 1;
	p.ops = vec![Op::Run {
		attempts: 2,
		max_virtual_s: 20_000,
		only: vec![],
	}];
	p.note = format!(
		"F4c chain {} then {} key {}",
		g[0] + 1,
		g[1] + 1,
		p.config.certificates[0].key_type.clone().unwrap()
	);
	Some(p)
}

/// F1o: presence/absence of each of the six mode/owner options (2^6) x 4 umasks on one base plan,
/// first issuance and one renewal (create and rewrite).
fn f1o(index: u64) -> Option<Plan> {
	let g = grid(index, &[64, 4])?;
	let mut rng = Rng::new(0xF10 ^ index);
	let mut p = simple_plan(&mut rng, 1);
	let bits = g[0];
	let gl = &mut p.config.global;
	if bits & 1 != 0 {
		gl.cert_file_mode = Some([0o640u32, 0o600, 0o664, 0o444][(index % 4) as usize]);
	}
	if bits & 2 != 0 {
		gl.pk_file_mode = Some([0o640u32, 0o400, 0o660, 0o604][(index % 4) as usize]);
	}
	if bits & 4 != 0 {
		gl.cert_file_user = Some(["daemon", "1", "nobody", "65534"][(index % 4) as usize].into());
	}
	if bits & 8 != 0 {
		gl.cert_file_group = Some(["daemon", "65534", "nogroup", "1"][(index % 4) as usize].into());
	}
	if bits & 16 != 0 {
		gl.pk_file_user = Some(["nobody", "65534", "daemon", "1"][(index % 4) as usize].into());
	}
	if bits & 32 != 0 {
		gl.pk_file_group = Some(["nogroup", "1", "daemon", "65534"][(index % 4) as usize].into());
	}
	p.world.umask = [0o022u32, 0o077, 0o027, 0o000][g[1] as usize];
	p.cas[0].knobs.lifetime_s = vec![3600];
	p.ops = vec![Op::Run {
		attempts: 2,
		max_virtual_s: 20_000,
		only: vec![],
	}];
	p.note = format!("F1o options {:06b} umask {:o}", bits, p.world.umask);
	Some(p)
}

/// F1s: every subset of the 15 subject attributes (2^15 plans), one certificate, cycling key type
/// and digest.
fn f1s(index: u64) -> Option<Plan> {
	if index >= 1 << 15 {
		return None;
	}
	let mut rng = Rng::new(0xF15 ^ index);
	let mut p = simple_plan(&mut rng, 1);
	let c = &mut p.config.certificates[0];
	for (i, k) in super::f1::SUBJECT_KEYS.iter().enumerate() {
		if index & (1 << i) != 0 {
			let v = if *k == "country_name" {
				"FR".to_string()
			} else if *k == "pkcs9_email_address" {
				"a@example.org".to_string()
			} else {
				format!("v{} {}", i, index % 97)
			};
			c.subject_attributes.insert(k.to_string(), v);
		}
	}
	c.key_type = Some(CHEAP_KEY_TYPES[(index % 5) as usize].to_string());
	c.csr_digest = Some(["sha256", "sha384", "sha512"][(index % 3) as usize].to_string());
	p.sched.net_us = (100, 500);
	p.note = format!("F1s subject attribute subset {:015b}", index);
	Some(p)
}

/// F2f: persistent errors: every request position x every error answer, repeated FOR EVER on that
/// position.  Every attempt must still end in bounded time with its post-operation report; two
/// attempts are observed.
fn f2f(index: u64) -> Option<Plan> {
	let kinds = error_kinds();
	let g = grid(index, &[ALL_POSITIONS.len() as u64, kinds.len() as u64])?;
	let (class, nth) = ALL_POSITIONS[g[0] as usize];
	let mut p = grid_base(0, 2);
	p.faults.push(Fault {
		site: "net".into(),
		ca: 0,
		class: class.into(),
		nth,
		count: 1_000_000_000,
		kind: kinds[g[1] as usize].clone(),
		..Default::default()
	});
	p.ops = vec![Op::Run {
		attempts: 2,
		max_virtual_s: 6000,
		only: vec![],
	}];
	p.sched.max_events = 80_000;
	p.note = format!(
		"F2f {}#{} x {} for ever",
		class,
		nth,
		super::super::ca::fault_name(&kinds[g[1] as usize])
	);
	Some(p)
}

/// F2q: the error-run grid on five further base plans (kp_reuse, pre-existing pair, other account
/// key types incl. RSA) with the boundary run lengths 1, 9, 10, 11.
fn f2q(index: u64) -> Option<Plan> {
	let kinds = error_kinds();
	let runs = [1u64, 9, 10, 11];
	let g = grid(
		index,
		&[
			5,
			POST_POSITIONS.len() as u64,
			kinds.len() as u64,
			runs.len() as u64,
		],
	)?;
	let (class, nth) = POST_POSITIONS[g[1] as usize];
	let mut p = grid_base([1, 2, 3, 0, 0][g[0] as usize], 1);
	p.config.accounts[0].key_type =
		Some(["ecdsa-p256", "ed25519", "ecdsa-p521", "rsa2048", "ed448"][g[0] as usize].into());
	p.cas[0].knobs.nonce_on_get = g[0] % 2 == 1;
	p.faults.push(Fault {
		site: "net".into(),
		ca: 0,
		class: class.into(),
		nth,
		count: runs[g[3] as usize],
		kind: kinds[g[2] as usize].clone(),
		..Default::default()
	});
	p.note = format!(
		"F2q base {} {}#{} x {} x run {}",
		g[0],
		class,
		nth,
		super::super::ca::fault_name(&kinds[g[2] as usize]),
		runs[g[3] as usize]
	);
	Some(p)
}

/// F4t: "twins": one certificate requested with two key types (same name or same first identifier,
/// same identifiers, same directory): every ordered pair of the five cheap key types x named/unnamed
/// x kp_reuse x 3 initial orders of the certificate table; first issuance and one renewal of both.
/// Their ids and file names differ by the key type only.
fn f4t(index: u64) -> Option<Plan> {
	let g = grid(index, &[20, 2, 2, 3])?;
	let mut rng = Rng::new(0xF47 ^ index);
	let mut p = simple_plan(&mut rng, 1);
	let (a, b) = {
		let a = g[0] / 4;
		let mut b = g[0] % 4;
		if b >= a {
			b += 1;
		}
		(a as usize, b as usize)
	};
	p.config.certificates[0].key_type = Some(CHEAP_KEY_TYPES[a].to_string());
	p.config.certificates[0].kp_reuse = Some(g[2] == 1);
	p.config.certificates[0].name = if g[1] == 1 { Some("twin".into()) } else { None };
	let mut twin = p.config.certificates[0].clone();
	twin.key_type = Some(CHEAP_KEY_TYPES[b].to_string());
	p.config.certificates.push(twin);
	p.world.pre_files.clear();
	p.cas[0].knobs.lifetime_s = vec![3600];
	p.sched.map_salt = g[3];
	p.ops = vec![Op::Run {
		attempts: 2,
		max_virtual_s: 20_000,
		only: vec![],
	}];
	p.note = format!("F4t twins {} / {}, named {}, kp_reuse {}, salt {}", CHEAP_KEY_TYPES[a], CHEAP_KEY_TYPES[b], g[1], g[2], g[3]);
	Some(p)
}

/// F4u: a certificate file that exists but cannot be parsed (empty as left by a crash between open
/// and write, garbage, a PEM frame around nonsense) beside a usable key: the daemon cannot schedule
/// that certificate and retries the evaluation with its back-off (1 min, 10 min, 100 min, 1 day,
/// 1 day, ...) for several virtual days, while the other certificates must be served.
fn f4u(index: u64) -> Option<Plan> {
	let g = grid(index, &[3, 2, 2])?;
	let mut rng = Rng::new(0xF4B ^ index);
	let n = 2 + g[1] as usize;
	let mut p = simple_plan(&mut rng, n);
	let kt = p.config.certificates[0].key_type.clone().unwrap_or_else(|| "rsa2048".into());
	p.world.pre_files = vec![
		PreFile {
			target: "pk:0".into(),
			content: format!("key:{}", kt),
			lifetime_s: 0,
			mode: Some(0o600),
		},
		PreFile {
			target: "crt:0".into(),
			content: ["empty", "garbage:300", "text:-----BEGIN CERTIFICATE-----\nAAAA\n-----END CERTIFICATE-----\n"][g[0] as usize].into(),
			lifetime_s: 0,
			mode: Some(0o644),
		},
	];
	p.ops = vec![
		Op::Run {
			attempts: 1,
			max_virtual_s: 3_000,
			only: (1..n).collect(),
		},
		Op::RunFor {
			virtual_s: [2 * 86_400 + 8_000, 5 * 86_400][g[2] as usize],
		},
	];
	p.note = format!("F4u unreadable certificate file kind {}, {} other certificates, span {}", g[0], n - 1, g[2]);
	Some(p)
}

/// F2m: one request answered by a run of recoverable errors of TWO different types (the retry
/// budget is per request, not per error type): every POST position x 5 ordered pairs of
/// recoverable types x 6 patterns (9+1, 5+5, alternating x12, 4+4 then success, 9+2, 1+9).
fn f2m(index: u64) -> Option<Plan> {
	let pairs = [
		("serverInternal", "badNonce"),
		("badNonce", "serverInternal"),
		("rateLimited", "malformed"),
		("connection", "tls"),
		("dns", "badNonce"),
	];
	let g = grid(index, &[POST_POSITIONS.len() as u64, pairs.len() as u64, 6])?;
	let (class, nth) = POST_POSITIONS[g[0] as usize];
	let (a, b) = pairs[g[1] as usize];
	// (type index, run length) segments
	let pattern: Vec<(usize, u64)> = match g[2] {
		0 => vec![(0, 9), (1, 1)],
		1 => vec![(0, 5), (1, 5)],
		2 => (0..12).map(|i| (i % 2, 1)).collect(),
		3 => vec![(0, 4), (1, 4)],
		4 => vec![(0, 9), (1, 2)],
		_ => vec![(0, 1), (1, 9)],
	};
	let mut p = grid_base(0, 1);
	let mut at = nth;
	for (which, len) in pattern.iter() {
		let typ = if *which == 0 { a } else { b };
		p.faults.push(Fault {
			site: "net".into(),
			ca: 0,
			class: class.into(),
			nth: at,
			count: *len,
			kind: FaultKind::Acme {
				typ: typ.to_string(),
				status: status_for(typ, index),
				detail: Some(format!("injected {}", typ)),
			},
			..Default::default()
		});
		at += len;
	}
	p.note = format!("F2m {}#{} x {}/{} x pattern {}", class, nth, a, b, g[2]);
	Some(p)
}

/// F1p: pending authorizations whose challenges are not all `pending`: the challenge of the
/// configured type (or another one) is shown as `processing` or `valid` while the authorization is
/// still pending; 3 challenge types x 4 status patterns x 3 challenge orders x 2 authorization orders.
fn f1p(index: u64) -> Option<Plan> {
	let g = grid(index, &[3, 4, 3, 2])?;
	let mut p = grid_base(0, 1);
	let ty = ["http-01", "dns-01", "tls-alpn-01"][g[0] as usize];
	p.config.certificates[0].identifiers = vec![ident("a.status.sim", ty), ident("b.status.sim", "dns-01")];
	p.cas[0].knobs.chall_status = match g[1] {
		0 => vec!["processing".into()],
		1 => vec!["valid".into()],
		2 => vec!["".into(), "processing".into()],
		_ => vec!["processing".into(), "".into(), "valid".into()],
	};
	p.cas[0].knobs.chall_order = ["as_requested", "reversed", "shuffled"][g[2] as usize].into();
	p.cas[0].knobs.authz_order = ["as_requested", "reversed"][g[3] as usize].into();
	p.note = format!("F1p {} pattern {} chall order {} authz order {}", ty, g[1], g[2], g[3]);
	Some(p)
}
