// Scenario families (DESIGN.md section 7 table).
use super::super::plan::*;
use super::super::prng::Rng;
use super::base::*;

pub fn build(family: &str, rng: &mut Rng, index: u64) -> Option<Plan> {
	match family {
		"smoke" => Some(simple_plan(rng, 1 + (index % 2) as usize)),
		_ => None,
	}
}
