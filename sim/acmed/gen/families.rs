// Scenario families (DESIGN.md section 7 table).
use super::super::monitors::common::ACME_TYPES;
use super::super::plan::*;
use super::super::prng::Rng;
use super::base::*;
use std::collections::BTreeMap;

pub fn build(family: &str, rng: &mut Rng, index: u64) -> Option<Plan> {
	match family {
		"smoke" => Some(simple_plan(rng, 1 + (index % 2) as usize)),
		"F2p" => f2p(index),
		"F2n" => f2n(index),
		_ => None,
	}
}

/// decompose `index` over the given dimension sizes (first dimension varies slowest)
pub fn grid(index: u64, dims: &[u64]) -> Option<Vec<u64>> {
	let total: u64 = dims.iter().product();
	if index >= total {
		return None;
	}
	let mut rem = index;
	let mut out = vec![0; dims.len()];
	for i in (0..dims.len()).rev() {
		out[i] = rem % dims[i];
		rem /= dims[i];
	}
	Some(out)
}

fn ident(dns: &str, ch: &str) -> IdentCfg {
	IdentCfg {
		dns: Some(dns.into()),
		ip: None,
		challenge: ch.into(),
		env: BTreeMap::new(),
	}
}

/// The fixed base plan of the exhaustive grids: one certificate, two identifiers (http-01 and
/// dns-01), P-256 keys, standard hooks, CA with default behaviour.  `variant` picks kp_reuse and
/// whether a matching pair pre-exists (C03 needs all four).
pub fn grid_base(variant: u64, attempts: u32) -> Plan {
	let mut rng = Rng::new(0xBA5E ^ variant);
	let (hooks, names) = std_hooks();
	let kp_reuse = variant & 1 == 1;
	let pre_pair = variant & 2 == 2;
	let cert = CertCfg {
		name: Some("grid".into()),
		account: "acc".into(),
		endpoint: "ep0".into(),
		identifiers: vec![ident("a.grid.sim", "http-01"), ident("b.grid.sim", "dns-01")],
		key_type: Some("ecdsa-p256".into()),
		kp_reuse: Some(kp_reuse),
		hooks: names,
		..Default::default()
	};
	let mut world = world_cfg(&mut rng);
	world.umask = 0o022;
	if pre_pair {
		world.pre_files = vec![
			PreFile {
				target: "pk:0".into(),
				content: "key:ecdsa-p256".into(),
				lifetime_s: 0,
				mode: Some(0o600),
			},
			PreFile {
				target: "crt:0".into(),
				// expires in 10 days: inside the default 30-day renew_delay, so the daemon renews at once
				content: "pair".into(),
				lifetime_s: 10 * 86400,
				mode: Some(0o644),
			},
		];
	}
	let mut sched = Sched::default();
	sched.net_us = (100, 3000);
	sched.fs_us = (1, 50);
	sched.proc_ms = (1, 5);
	sched.map_salt = variant;
	Plan {
		world,
		config: Config {
			global: Global::default(),
			rate_limits: vec![],
			endpoints: vec![EndpointCfg {
				name: "ep0".into(),
				ca: 0,
				rate_limits: vec![],
				tos_agreed: true,
			}],
			hooks,
			groups: vec![],
			accounts: vec![account("acc", "ecdsa-p256")],
			certificates: vec![cert],
		},
		cas: vec![CaCfg {
			host: "ca0.sim".into(),
			knobs: Knobs::default(),
		}],
		ops: vec![Op::Run {
			attempts,
			max_virtual_s: 7200,
			only: vec![],
		}],
		faults: vec![],
		sched,
		..Default::default()
	}
}

/// POST positions of the grid base plan's first attempt: (class, nth transmission of that class)
pub const POST_POSITIONS: [(&str, u64); 12] = [
	("newAccount", 1),
	("newOrder", 1),
	("authz", 1),
	("challenge", 1),
	("authzPoll", 1),
	("authz", 2),
	("challenge", 2),
	("authzPoll", 2),
	("orderPollReady", 1),
	("finalize", 1),
	("orderPollValid", 1),
	("certificate", 1),
];

pub const ALL_POSITIONS: [(&str, u64); 14] = [
	("directory", 1),
	("newNonce", 1),
	("newAccount", 1),
	("newOrder", 1),
	("authz", 1),
	("challenge", 1),
	("authzPoll", 1),
	("authz", 2),
	("challenge", 2),
	("authzPoll", 2),
	("orderPollReady", 1),
	("finalize", 1),
	("orderPollValid", 1),
	("certificate", 1),
];

fn status_for(typ: &str, salt: u64) -> u16 {
	match typ {
		"rateLimited" => 429,
		"serverInternal" => [500, 503][(salt % 2) as usize],
		"unauthorized" | "caa" | "orderNotReady" | "userActionRequired" => 403,
		_ => 400,
	}
}

/// the error answers of the grids: 24 ACME types, unknown type, absent type, non-JSON, empty,
/// JSON that is not a problem document
pub fn error_kinds() -> Vec<FaultKind> {
	let mut v = vec![];
	for (i, t) in ACME_TYPES.iter().enumerate() {
		v.push(FaultKind::Acme {
			typ: t.to_string(),
			status: status_for(t, i as u64),
			detail: Some(format!("injected {}", t)),
		});
	}
	v.push(FaultKind::Acme {
		typ: "somethingBrandNew".into(),
		status: 400,
		detail: Some("injected unknown type".into()),
	});
	v.push(FaultKind::Acme {
		typ: String::new(),
		status: 500,
		detail: Some("injected typeless problem".into()),
	});
	v.push(FaultKind::Http {
		status: 502,
		body: "<html><body>Bad gateway</body></html>".into(),
		content_type: "text/html".into(),
	});
	v.push(FaultKind::Http {
		status: 503,
		body: String::new(),
		content_type: String::new(),
	});
	v.push(FaultKind::Http {
		status: 404,
		body: "{\"message\":\"not a problem document\"}".into(),
		content_type: "application/json".into(),
	});
	v
}

/// F2p: every POST position x every error answer x run length 1..12 (exhaustive grid)
fn f2p(index: u64) -> Option<Plan> {
	let kinds = error_kinds();
	let g = grid(index, &[POST_POSITIONS.len() as u64, kinds.len() as u64, 12])?;
	let (class, nth) = POST_POSITIONS[g[0] as usize];
	let mut p = grid_base(0, 1);
	p.faults.push(Fault {
		site: "net".into(),
		ca: 0,
		class: class.into(),
		nth,
		count: g[2] + 1,
		kind: kinds[g[1] as usize].clone(),
		..Default::default()
	});
	p.note = format!("F2p {}#{} x {} x run {}", class, nth, super::super::ca::fault_name(&kinds[g[1] as usize]), g[2] + 1);
	Some(p)
}

/// F2n: objects that never reach the awaited status, at every polling phase, alone and combined
/// with slow-but-finite objects (polls just below / at / above the bound)
fn f2n(index: u64) -> Option<Plan> {
	let polls = [0u32, 1, 5, 18, 19, 20, 21, 1000];
	let g = grid(index, &[3, polls.len() as u64])?;
	let mut p = grid_base(0, 1);
	let n = polls[g[1] as usize];
	match g[0] {
		0 => p.cas[0].knobs.polls_authz = n,
		1 => p.cas[0].knobs.polls_ready = n,
		_ => p.cas[0].knobs.polls_valid = n,
	}
	p.ops = vec![Op::Run {
		attempts: 1,
		max_virtual_s: 86400,
		only: vec![],
	}];
	p.note = format!("F2n phase {} stays non-final for {} polls", g[0], n);
	Some(p)
}
