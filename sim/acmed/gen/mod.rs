// Plan generators: gen::generate(family, seed, index) -> Plan, a pure function of its arguments.
use super::plan::*;
use super::prng::{mix, Rng};
use std::collections::BTreeMap;

pub mod base;
pub mod f1;
pub mod f6;
pub mod families;

pub fn generate(family: &str, seed: u64, index: u64) -> Option<Plan> {
	let mut rng = Rng::new(mix(seed, family, index));
	let mut p = families::build(family, &mut rng, index)?;
	p.v = 1;
	p.family = family.to_string();
	p.seed = seed;
	p.index = index;
	Some(p)
}

pub fn env_table(rng: &mut Rng, prefix: &str, n: u64) -> BTreeMap<String, String> {
	let mut m = BTreeMap::new();
	for i in 0..n {
		m.insert(format!("{}_{}", prefix, i), format!("v{}", rng.below(1000)));
	}
	m
}
