// H12 markers: the exact begin and end of an attempt, per certificate.
use super::world::{self, Ev};

pub fn attempt_begin(cert_id: &str) {
	world::with(|w| {
		if w.last_attempt_instant == w.mono {
			w.same_instant_attempts += 1;
		} else {
			w.last_attempt_instant = w.mono;
			w.same_instant_attempts = 0;
		}
		let snap = std::rc::Rc::new(super::snap::pair(w, cert_id));
		w.push(Ev::AttemptBegin {
			cert: cert_id.to_string(),
			snap,
		});
	});
}

pub fn attempt_end(cert_id: &str, ok: bool) {
	world::with(|w| {
		*w.attempts_done.entry(cert_id.to_string()).or_insert(0) += 1;
		if ok {
			*w.attempts_ok.entry(cert_id.to_string()).or_insert(0) += 1;
		}
		let snap = std::rc::Rc::new(super::snap::pair(w, cert_id));
		let accs = super::snap::accounts(w);
		w.account_snaps
			.push((w.seq + 1, format!("attempt_end:{}", cert_id), accs));
		w.push(Ev::AttemptEnd {
			cert: cert_id.to_string(),
			ok,
			snap,
		});
	});
}
