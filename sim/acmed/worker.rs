// Worker modes of the acmed binary when ACMED_VERIF_RUN is set (one simulation at a time per
// process; parallelism is by worker processes).  Exit codes: 0 ok, 1 violation (replay mode),
// 2 harness error.
use super::gen;
use super::monitors::{self, Violation};
use super::plan::Plan;
use super::run::{self, RunResult};
use super::util::sha256_hex;
use super::world::{Ev, World};
use serde_json::{json, Value};
use std::collections::BTreeMap;
use std::io::Write;

fn arg(args: &[String], name: &str) -> Option<String> {
	args.iter()
		.position(|a| a == name)
		.and_then(|i| args.get(i + 1))
		.cloned()
}

fn flag(args: &[String], name: &str) -> bool {
	args.iter().any(|a| a == name)
}

pub fn main(mode: &str) -> i32 {
	let args: Vec<String> = std::env::args().collect();
	// panics are caught per run; keep the default hook quiet unless asked
	if std::env::var("ACMED_VERIF_VERBOSE").is_err() {
		std::panic::set_hook(Box::new(|_| {}));
	}
	if std::env::var("ACMED_VERIF_LOG").is_ok() {
		let lvl = std::env::var("ACMED_VERIF_LOG").unwrap();
		let _ = acme_common::logs::set_log_system(Some(lvl.as_str()), false, true);
	}
	match mode {
		"selftest" => selftest(),
		"batch" => batch(&args),
		"replay" => replay(&args),
		"genplan" => {
			let fam = arg(&args, "--family").unwrap_or_default();
			let seed: u64 = arg(&args, "--seed")
				.and_then(|s| s.parse().ok())
				.unwrap_or(1);
			let idx: u64 = arg(&args, "--index")
				.and_then(|s| s.parse().ok())
				.unwrap_or(0);
			match gen::generate(&fam, seed, idx) {
				Some(p) => {
					println!("{}", serde_json::to_string_pretty(&p).unwrap());
					0
				}
				None => {
					eprintln!("unknown family {}", fam);
					2
				}
			}
		}
		"shrink" => super::shrink::main(&args),
		_ => {
			eprintln!("unknown ACMED_VERIF_RUN mode {}", mode);
			2
		}
	}
}

fn selftest() -> i32 {
	let mut bad = 0;
	for (name, r) in [
		("jws/jwk vectors", super::ca::keys::selftest()),
		("idna/ip vectors", super::expect::selftest()),
	]
	.iter()
	{
		match r {
			Ok(()) => println!("selftest {}: ok", name),
			Err(e) => {
				println!("selftest {}: FAILED: {}", name, e);
				bad += 1;
			}
		}
	}
	if bad > 0 {
		2
	} else {
		0
	}
}

/// Normalised trace hash (determinism proof): event kinds, virtual times and the fields that do
/// not depend on key material or real time.
pub fn trace_hashes(w: &World) -> (String, String) {
	let mut full = String::new();
	let mut ileave = String::new();
	for e in w.trace.iter() {
		let (res, detail): (String, String) = match &e.ev {
			Ev::Boot { n } => ("d".into(), format!("boot{}", n)),
			Ev::BootOk { n, .. } => ("d".into(), format!("bootok{}", n)),
			Ev::BootErr { n, msg } => (
				"d".into(),
				format!(
					"booterr{}:{}",
					n,
					msg.replace(w.scratch.to_string_lossy().as_ref(), "@")
				),
			),
			Ev::Stopped { why } => ("d".into(), format!("stopped:{}", why)),
			Ev::AttemptBegin { cert, .. } => (cert.clone(), "begin".into()),
			Ev::AttemptEnd { cert, ok, .. } => (cert.clone(), format!("end:{}", ok)),
			Ev::NetSend {
				ca, method, url, ..
			} => (format!("ca{}", ca), format!("send:{}:{}", method, url)),
			Ev::NetDeliver {
				ca, class, fault, ..
			} => (
				format!("ca{}", ca),
				format!("deliver:{}:{:?}", class, fault),
			),
			Ev::NetReply {
				ca, status, err, ..
			} => (
				format!("ca{}", ca),
				format!("reply:{}:{}", status, err.is_some()),
			),
			Ev::HookSpawn { rec, .. } => (
				"hook".into(),
				format!("spawn:{}", rec.argv.first().cloned().unwrap_or_default()),
			),
			Ev::HookExit { code, .. } => ("hook".into(), format!("exit:{:?}", code)),
			Ev::SpawnFail { prog } => ("hook".into(), format!("spawnfail:{}", prog)),
			Ev::FsOpen {
				path,
				write,
				existed,
				err,
				..
			} => (
				"fs".into(),
				format!(
					"open:{}:{}:{}:{}",
					path.replace(w.scratch.to_string_lossy().as_ref(), "@"),
					write,
					existed,
					err.is_some()
				),
			),
			Ev::FsWrite { err, .. } => ("fs".into(), format!("write:{}", err.is_some())),
			Ev::FsRead { err, .. } => ("fs".into(), format!("read:{}", err.is_some())),
			Ev::FsClose { exact, .. } => ("fs".into(), format!("close:{}", exact)),
			Ev::TimerSleep { ns } => ("t".into(), format!("tsleep:{}", ns)),
			Ev::ThreadSleep { ns } => ("t".into(), format!("bsleep:{}", ns)),
			Ev::Op { what } => ("op".into(), what.clone()),
			Ev::FileNote { when, .. } => ("fs".into(), format!("note:{}", when)), // length is key-material dependent (RSA DER)
			Ev::Panic { msg } => ("d".into(), format!("panic:{}", msg)),
		};
		full.push_str(&format!("{}|{}|{}|{}\n", e.seq, e.t, res, detail));
		ileave.push_str(&format!(
			"{}|{}\n",
			res,
			detail.split(':').next().unwrap_or("")
		));
	}
	if let Ok(p) = std::env::var("ACMED_VERIF_DUMP_NORM") {
		let _ = std::fs::write(p, &full);
	}
	(
		sha256_hex(full.as_bytes())[..16].to_string(),
		sha256_hex(ileave.as_bytes())[..16].to_string(),
	)
}

pub fn result_json(plan: &Plan, r: &RunResult, props: &[String]) -> (Value, Vec<Violation>) {
	let mut all_v = vec![];
	let mut probes: BTreeMap<String, u64> = r.world.counters.clone();
	let mut nontrivial = BTreeMap::new();
	for p in props {
		let rep = monitors::check(p, r);
		for v in rep.violations.iter() {
			// details must not depend on the process (scratch paths carry the pid)
			let mut v = v.clone();
			let base = run::scratch_base().to_string_lossy().to_string();
			v.detail = v.detail.replace(&base, "@SCRATCH");
			all_v.push(v);
		}
		for (k, v) in rep.probes.iter() {
			*probes.entry(k.clone()).or_insert(0) += v;
		}
		nontrivial.insert(p.clone(), rep.nontrivial);
	}
	let (th, ih) = trace_hashes(&r.world);
	let posts: usize = r.world.cas.iter().map(|c| c.posts.len()).sum();
	let issued: usize = r.world.cas.iter().map(|c| c.issued.len()).sum();
	let v = json!({
		"index": plan.index,
		"family": plan.family,
		"violations": all_v,
		"probes": probes,
		"faults_fired": r.world.fault_fired,
		"virtual_s": (r.world.mono / 1_000_000_000) as u64,
		"events": r.world.seq,
		"posts": posts,
		"issued": issued,
		"trace_hash": th,
		"ileave_hash": ih,
		"outcomes": r.outcomes,
		"nontrivial": nontrivial,
		"panic": r.panic,
		"harness_error": r.harness_error,
	});
	(v, all_v)
}

fn batch(args: &[String]) -> i32 {
	let fam = arg(args, "--family").unwrap_or_default();
	let seed: u64 = arg(args, "--seed")
		.and_then(|s| s.parse().ok())
		.unwrap_or(1);
	let from: u64 = arg(args, "--from")
		.and_then(|s| s.parse().ok())
		.unwrap_or(0);
	let to: u64 = arg(args, "--to").and_then(|s| s.parse().ok()).unwrap_or(1);
	let step: u64 = arg(args, "--step")
		.and_then(|s| s.parse().ok())
		.unwrap_or(1)
		.max(1);
	let props: Vec<String> = arg(args, "--props")
		.unwrap_or_default()
		.split(',')
		.filter(|s| !s.is_empty())
		.map(|s| s.to_string())
		.collect();
	let samples: u64 = arg(args, "--samples")
		.and_then(|s| s.parse().ok())
		.unwrap_or(0);
	let mut out = std::io::stdout();
	let mut i = from;
	let mut harness_errors = 0;
	while i < to {
		let plan = match gen::generate(&fam, seed, i) {
			Some(p) => p,
			None => {
				// a finite family ends here
				let _ = writeln!(out, "{}", json!({"end_of_family": i}));
				break;
			}
		};
		let with_plan = samples > 0 && (i - from) / step < samples;
		let iso = super::child::run_isolated(&plan, &props, with_plan, false);
		if iso.harness_error {
			harness_errors += 1;
		}
		let v = iso.record;
		let _ = writeln!(out, "{}", v);
		let _ = out.flush();
		i += step;
	}
	if harness_errors > 0 {
		2
	} else {
		0
	}
}

pub fn load_plan(path: &str) -> Result<Plan, String> {
	let s = std::fs::read_to_string(path).map_err(|e| format!("{}: {}", path, e))?;
	let v: Value = serde_json::from_str(&s).map_err(|e| format!("{}: {}", path, e))?;
	// a replay file is either a bare plan or {"plan":..., "violation":...}
	let pv = if v.get("plan").is_some() {
		v["plan"].clone()
	} else {
		v
	};
	serde_json::from_value(pv).map_err(|e| format!("{}: {}", path, e))
}

fn replay(args: &[String]) -> i32 {
	let path = match arg(args, "--plan") {
		Some(p) => p,
		None => {
			eprintln!("--plan missing");
			return 2;
		}
	};
	let props: Vec<String> = arg(args, "--props")
		.unwrap_or_default()
		.split(',')
		.filter(|s| !s.is_empty())
		.map(|s| s.to_string())
		.collect();
	let plan = match load_plan(&path) {
		Ok(p) => p,
		Err(e) => {
			eprintln!("{}", e);
			return 2;
		}
	};
	let iso = super::child::run_isolated(&plan, &props, false, flag(args, "--trace"));
	let mut v = iso.record;
	if let Some(o) = v.as_object_mut() {
		o.remove("plan");
	}
	println!("{}", v);
	if iso.harness_error {
		return 2;
	}
	if v["violations"].as_array().map(|a| a.is_empty()).unwrap_or(true) {
		0
	} else {
		1
	}
}

pub fn print_trace(r: &RunResult) {
	for e in r.world.trace.iter() {
		eprintln!("{:>6} {:>14.6}s {:?}", e.seq, e.t as f64 / 1e9, e.ev);
	}
	for (i, ca) in r.world.cas.iter().enumerate() {
		for p in ca.posts.iter() {
			eprintln!(
				"ca{} POST tx={} {} {} nonce={:?} {:?} problems={:?} -> {} {:?} scripted={:?}",
				i,
				p.tx,
				p.class,
				p.url,
				p.nonce,
				p.nonce_state,
				p.problems,
				p.reply_status,
				p.reply_type,
				p.scripted
			);
		}
	}
}
