// Small independent helpers for the oracle side (own base64url, hex, hashing through the openssl
// crate directly -- not through acme_common).
use openssl::hash::{hash, MessageDigest};

const B64: &[u8; 64] = b"ABCDEFGHIJKLMNOPQRSTUVWXYZabcdefghijklmnopqrstuvwxyz0123456789-_";

pub fn b64u(data: &[u8]) -> String {
	let mut out = String::with_capacity((data.len() * 4 + 2) / 3);
	for chunk in data.chunks(3) {
		let b = [
			chunk[0],
			*chunk.get(1).unwrap_or(&0),
			*chunk.get(2).unwrap_or(&0),
		];
		let n = ((b[0] as u32) << 16) | ((b[1] as u32) << 8) | b[2] as u32;
		out.push(B64[(n >> 18) as usize & 63] as char);
		out.push(B64[(n >> 12) as usize & 63] as char);
		if chunk.len() > 1 {
			out.push(B64[(n >> 6) as usize & 63] as char);
		}
		if chunk.len() > 2 {
			out.push(B64[n as usize & 63] as char);
		}
	}
	out
}

/// Strict base64url without padding (RFC 7515 section 2): rejects padding, '+', '/', whitespace and
/// non-canonical trailing bits.
pub fn b64u_decode(s: &str) -> Result<Vec<u8>, String> {
	let mut vals = Vec::with_capacity(s.len());
	for c in s.bytes() {
		let v = match c {
			b'A'..=b'Z' => c - b'A',
			b'a'..=b'z' => c - b'a' + 26,
			b'0'..=b'9' => c - b'0' + 52,
			b'-' => 62,
			b'_' => 63,
			_ => return Err(format!("invalid base64url character {:?}", c as char)),
		};
		vals.push(v as u32);
	}
	if vals.len() % 4 == 1 {
		return Err("invalid base64url length".into());
	}
	let mut out = Vec::with_capacity(vals.len() * 3 / 4);
	for chunk in vals.chunks(4) {
		match chunk.len() {
			4 => {
				let n = (chunk[0] << 18) | (chunk[1] << 12) | (chunk[2] << 6) | chunk[3];
				out.push((n >> 16) as u8);
				out.push((n >> 8) as u8);
				out.push(n as u8);
			}
			3 => {
				if chunk[2] & 0x3 != 0 {
					return Err("non-canonical base64url".into());
				}
				let n = (chunk[0] << 18) | (chunk[1] << 12) | (chunk[2] << 6);
				out.push((n >> 16) as u8);
				out.push((n >> 8) as u8);
			}
			2 => {
				if chunk[1] & 0xf != 0 {
					return Err("non-canonical base64url".into());
				}
				let n = (chunk[0] << 18) | (chunk[1] << 12);
				out.push((n >> 16) as u8);
			}
			_ => unreachable!(),
		}
	}
	Ok(out)
}

pub fn hex(data: &[u8]) -> String {
	data.iter().map(|b| format!("{:02x}", b)).collect()
}

pub fn sha256(data: &[u8]) -> Vec<u8> {
	hash(MessageDigest::sha256(), data).unwrap().to_vec()
}

pub fn sha256_hex(data: &[u8]) -> String {
	hex(&sha256(data))
}

pub fn short_hash(data: &[u8]) -> String {
	hex(&sha256(data)[..8])
}
