// The simulated world of one run: virtual clocks, timer heap, PRNG streams, model CAs, fault table,
// trace, counters, scratch directory.  One world per thread at a time (thread_local); one simulation
// per process at a time (acme_common::verif_clock and the process environment are process-global).
use super::ca::Ca;
use super::plan::{Fault, Plan};
use super::prng::Streams;
use std::cell::{Cell, RefCell};
use std::cmp::Ordering;
use std::collections::{BTreeMap, BinaryHeap};
use std::path::PathBuf;
use std::rc::Rc;
use std::task::Waker;

pub struct Timer {
	pub deadline: u128,
	pub tiebreak: u64,
	pub seq: u64,
	pub waker: Waker,
	pub fired: Rc<Cell<bool>>,
}

impl PartialEq for Timer {
	fn eq(&self, o: &Self) -> bool {
		self.deadline == o.deadline && self.tiebreak == o.tiebreak && self.seq == o.seq
	}
}
impl Eq for Timer {}
impl PartialOrd for Timer {
	fn partial_cmp(&self, o: &Self) -> Option<Ordering> {
		Some(self.cmp(o))
	}
}
impl Ord for Timer {
	// reversed: BinaryHeap is a max-heap, we want the earliest first
	fn cmp(&self, o: &Self) -> Ordering {
		(o.deadline, o.tiebreak, o.seq).cmp(&(self.deadline, self.tiebreak, self.seq))
	}
}

#[derive(Clone, Debug)]
pub struct Event {
	pub seq: u64,
	pub t: u128,
	pub ev: Ev,
}

#[derive(Clone, Debug)]
pub enum Ev {
	Boot {
		n: u32,
	},
	BootOk {
		n: u32,
		pairs: Vec<Rc<super::snap::PairSnap>>,
	},
	BootErr {
		n: u32,
		msg: String,
	},
	Stopped {
		why: String,
	},
	AttemptBegin {
		cert: String,
		snap: Rc<super::snap::PairSnap>,
	},
	AttemptEnd {
		cert: String,
		ok: bool,
		snap: Rc<super::snap::PairSnap>,
	},
	/// a request handed to the transport seam (admission instant of the limiter)
	NetSend {
		tx: u64,
		ca: usize,
		method: String,
		url: String,
	},
	/// the request reached the CA (or was cut before): class as classified by the CA
	NetDeliver {
		tx: u64,
		ca: usize,
		class: String,
		fault: Option<String>,
	},
	NetReply {
		tx: u64,
		ca: usize,
		status: u16,
		err: Option<String>,
	},
	HookSpawn {
		id: u64,
		rec: Rc<HookRec>,
	},
	HookExit {
		id: u64,
		code: Option<i32>,
	},
	SpawnFail {
		prog: String,
	},
	FsOpen {
		id: u64,
		path: String,
		write: bool,
		existed: bool,
		mode: Option<u32>,
		err: Option<String>,
	},
	FsWrite {
		id: u64,
		len: usize,
		err: Option<String>,
	},
	FsRead {
		id: u64,
		len: usize,
		err: Option<String>,
	},
	/// a written file was closed: `ok` = on-disk content equals exactly the bytes written
	FsClose {
		id: u64,
		path: String,
		written: usize,
		disk_len: usize,
		exact: bool,
		stat: Option<super::snap::StatSnap>,
	},
	TimerSleep {
		ns: u128,
	},
	ThreadSleep {
		ns: u128,
	},
	Op {
		what: String,
	},
	/// content hash of a file observed by the harness (account files around truncations/boots)
	FileNote {
		path: String,
		sha: String,
		len: u64,
		when: String,
	},
	Panic {
		msg: String,
	},
}

#[derive(Clone, Debug, Default)]
pub struct HookRec {
	pub prog: String,
	pub argv: Vec<String>,
	/// the environment the child would see: process environment overlaid by `.envs(..)`
	pub env: BTreeMap<String, String>,
	/// the variables passed explicitly with `.envs(..)`
	pub env_explicit: BTreeMap<String, String>,
	pub stdin_piped: bool,
	pub stdout: Option<String>,
	pub stderr: Option<String>,
}

pub struct World {
	pub plan: Plan,
	pub mono: u128,
	pub epoch0: i64,
	pub skew: i64,
	pub seq: u64,
	pub timer_seq: u64,
	pub heap: BinaryHeap<Timer>,
	pub streams: Streams,
	pub trace: Vec<Event>,
	pub cas: Vec<Ca>,
	pub faults: Vec<(Fault, u64)>, // fault, times fired
	pub counters: BTreeMap<String, u64>,
	pub scratch: PathBuf,
	pub next_id: u64,
	pub boots: u32,
	/// attempts completed per certificate id
	pub attempts_done: BTreeMap<String, u32>,
	pub attempts_ok: BTreeMap<String, u32>,
	/// stdin bytes per hook invocation id
	pub hook_stdin: BTreeMap<u64, Vec<u8>>,
	/// hook invocation counters per hook name (for the exit plan)
	pub hook_calls: BTreeMap<String, u64>,
	/// handles to the daemon's in-memory accounts (H6), refreshed at every boot
	pub accounts: Vec<(String, crate::AccountSync)>,
	pub fault_fired: BTreeMap<String, u64>,
	pub same_instant_attempts: u64,
	pub last_attempt_instant: u128,
	pub crash_watch: Option<(String, u64)>,
	pub crash_now: bool,
	/// (event seq, when, snapshots) of the daemon's in-memory accounts
	pub account_snaps: Vec<(u64, String, Vec<Option<super::snap::AccountSnap>>)>,
	pub initial_global: super::plan::Global,
	pub initial_account: (Vec<String>, Option<String>, Option<String>),
}

thread_local! {
	static W: RefCell<Option<World>> = RefCell::new(None);
}

pub fn install(w: World) {
	W.with(|c| *c.borrow_mut() = Some(w));
}

pub fn take() -> Option<World> {
	W.with(|c| c.borrow_mut().take())
}

pub fn active() -> bool {
	W.with(|c| c.borrow().is_some())
}

pub fn with<R>(f: impl FnOnce(&mut World) -> R) -> R {
	W.with(|c| {
		let mut b = c.borrow_mut();
		let w = b
			.as_mut()
			.expect("no simulated world installed (harness error)");
		f(w)
	})
}

impl World {
	pub fn new(plan: Plan, scratch: PathBuf) -> World {
		let seed = plan.seed ^ super::prng::splitmix64(plan.index.wrapping_add(0x51ED));
		let faults = plan.faults.iter().map(|f| (f.clone(), 0)).collect();
		let epoch0 = plan.world.epoch_unix;
		let initial_global = plan.config.global.clone();
		let initial_account = plan
			.config
			.accounts
			.first()
			.map(|a| {
				(
					a.contacts.clone(),
					a.external_account.as_ref().map(|e| e.identifier.clone()),
					a.key_type.clone(),
				)
			})
			.unwrap_or_default();
		World {
			plan,
			mono: 0,
			epoch0,
			skew: 0,
			seq: 0,
			timer_seq: 0,
			heap: BinaryHeap::new(),
			streams: Streams::new(seed),
			trace: Vec::new(),
			cas: Vec::new(),
			faults,
			counters: BTreeMap::new(),
			scratch,
			next_id: 0,
			boots: 0,
			attempts_done: BTreeMap::new(),
			attempts_ok: BTreeMap::new(),
			hook_stdin: BTreeMap::new(),
			hook_calls: BTreeMap::new(),
			accounts: Vec::new(),
			fault_fired: BTreeMap::new(),
			same_instant_attempts: 0,
			last_attempt_instant: u128::MAX,
			crash_watch: None,
			crash_now: false,
			account_snaps: Vec::new(),
			initial_global,
			initial_account,
		}
	}

	/// (contacts, eab kid, key type) of the first account as first configured
	pub fn plan_initial_account(&self) -> (Vec<String>, Option<String>, Option<String>) {
		self.initial_account.clone()
	}

	pub fn plan_initial_global(&self) -> super::plan::Global {
		self.initial_global.clone()
	}

	pub fn wall_unix(&self) -> i64 {
		self.epoch0 + (self.mono / 1_000_000_000) as i64 + self.skew
	}

	pub fn push(&mut self, ev: Ev) -> u64 {
		self.seq += 1;
		let seq = self.seq;
		if let Some((kind, n)) = &mut self.crash_watch {
			if ev_kind(&ev) == kind.as_str() {
				if *n <= 1 {
					self.crash_now = true;
					self.crash_watch = None;
				} else {
					*n -= 1;
				}
			}
		}
		self.trace.push(Event {
			seq,
			t: self.mono,
			ev,
		});
		seq
	}

	pub fn id(&mut self) -> u64 {
		self.next_id += 1;
		self.next_id
	}

	pub fn count(&mut self, key: &str) {
		*self.counters.entry(key.to_string()).or_insert(0) += 1;
	}

	pub fn count_n(&mut self, key: &str, n: u64) {
		*self.counters.entry(key.to_string()).or_insert(0) += n;
	}

	pub fn fired(&mut self, key: &str) {
		*self.fault_fired.entry(key.to_string()).or_insert(0) += 1;
	}

	pub fn add_timer(&mut self, delay_ns: u128, waker: Waker) -> Rc<Cell<bool>> {
		let fired = Rc::new(Cell::new(false));
		self.timer_seq += 1;
		let tiebreak = self.streams.draw("tiebreak");
		self.heap.push(Timer {
			deadline: self.mono + delay_ns,
			tiebreak,
			seq: self.timer_seq,
			waker,
			fired: fired.clone(),
		});
		fired
	}

	pub fn set_clock(&self) {
		acme_common::verif_clock::set(Some(self.wall_unix()));
	}
}

pub fn ev_kind(ev: &Ev) -> &'static str {
	match ev {
		Ev::Boot { .. } => "boot",
		Ev::BootOk { .. } => "boot_ok",
		Ev::BootErr { .. } => "boot_err",
		Ev::Stopped { .. } => "stopped",
		Ev::AttemptBegin { .. } => "attempt_begin",
		Ev::AttemptEnd { .. } => "attempt_end",
		Ev::NetSend { .. } => "net_send",
		Ev::NetDeliver { .. } => "net_deliver",
		Ev::NetReply { .. } => "net_reply",
		Ev::HookSpawn { .. } => "hook_spawn",
		Ev::HookExit { .. } => "hook_exit",
		Ev::SpawnFail { .. } => "spawn_fail",
		Ev::FsOpen { .. } => "fs_open",
		Ev::FsWrite { .. } => "fs_write",
		Ev::FsRead { .. } => "fs_read",
		Ev::FsClose { .. } => "fs_close",
		Ev::TimerSleep { .. } => "timer_sleep",
		Ev::ThreadSleep { .. } => "thread_sleep",
		Ev::Op { .. } => "op",
		Ev::FileNote { .. } => "file_note",
		Ev::Panic { .. } => "panic",
	}
}
