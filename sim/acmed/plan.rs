// The plan: one JSON document = one exactly repeatable simulated execution (DESIGN.md 6, App. C).
// The configuration is *data*: the TOML handed to the daemon and the oracle's expectations are both
// produced from it; the oracle never parses TOML with the daemon's code.
use serde::{Deserialize, Serialize};
use std::collections::BTreeMap;

pub const SCRATCH: &str = "@SCRATCH@";

fn is_false(b: &bool) -> bool {
	!*b
}
fn is_zero(v: &u64) -> bool {
	*v == 0
}
fn one() -> u32 {
	1
}

#[derive(Serialize, Deserialize, Clone, Debug, Default)]
pub struct Plan {
	pub v: u32,
	pub family: String,
	pub seed: u64,
	pub index: u64,
	#[serde(default)]
	pub note: String,
	pub world: WorldCfg,
	pub config: Config,
	pub cas: Vec<CaCfg>,
	pub ops: Vec<Op>,
	#[serde(default, skip_serializing_if = "Vec::is_empty")]
	pub faults: Vec<Fault>,
	pub sched: Sched,
}

#[derive(Serialize, Deserialize, Clone, Debug, Default)]
pub struct WorldCfg {
	pub epoch_unix: i64,
	#[serde(default)]
	pub umask: u32,
	#[serde(default, skip_serializing_if = "BTreeMap::is_empty")]
	pub proc_env: BTreeMap<String, String>,
	/// files present before the first boot: (relative path under scratch, kind)
	#[serde(default, skip_serializing_if = "Vec::is_empty")]
	pub pre_files: Vec<PreFile>,
}

#[derive(Serialize, Deserialize, Clone, Debug, Default)]
pub struct PreFile {
	/// "pk:<cert index>", "crt:<cert index>" or a path relative to the scratch root
	pub target: String,
	/// "key:<key type>" (fresh key), "garbage:<n>" (n bytes), "text:<literal>", "pair" (only for
	/// target crt:<i>: a certificate matching the key planted for pk:<i>, issued by a throw-away CA
	/// with the configured identifiers and `lifetime_s`), "empty"
	pub content: String,
	#[serde(default)]
	pub lifetime_s: i64,
	#[serde(default)]
	pub mode: Option<u32>,
}

#[derive(Serialize, Deserialize, Clone, Debug, Default)]
pub struct Config {
	#[serde(default)]
	pub global: Global,
	#[serde(default, skip_serializing_if = "Vec::is_empty")]
	pub rate_limits: Vec<RateLimitCfg>,
	pub endpoints: Vec<EndpointCfg>,
	#[serde(default, skip_serializing_if = "Vec::is_empty")]
	pub hooks: Vec<HookCfg>,
	#[serde(default, skip_serializing_if = "Vec::is_empty")]
	pub groups: Vec<GroupCfg>,
	pub accounts: Vec<AccountCfg>,
	pub certificates: Vec<CertCfg>,
}

#[derive(Serialize, Deserialize, Clone, Debug, Default)]
pub struct Global {
	#[serde(default, skip_serializing_if = "BTreeMap::is_empty")]
	pub env: BTreeMap<String, String>,
	#[serde(default, skip_serializing_if = "Option::is_none")]
	pub cert_file_mode: Option<u32>,
	#[serde(default, skip_serializing_if = "Option::is_none")]
	pub cert_file_user: Option<String>,
	#[serde(default, skip_serializing_if = "Option::is_none")]
	pub cert_file_group: Option<String>,
	#[serde(default, skip_serializing_if = "Option::is_none")]
	pub pk_file_mode: Option<u32>,
	#[serde(default, skip_serializing_if = "Option::is_none")]
	pub pk_file_user: Option<String>,
	#[serde(default, skip_serializing_if = "Option::is_none")]
	pub pk_file_group: Option<String>,
	#[serde(default, skip_serializing_if = "Option::is_none")]
	pub renew_delay: Option<String>,
	#[serde(default, skip_serializing_if = "Option::is_none")]
	pub random_early_renew: Option<String>,
}

#[derive(Serialize, Deserialize, Clone, Debug, Default)]
pub struct RateLimitCfg {
	pub name: String,
	pub number: u64,
	pub period: String,
}

#[derive(Serialize, Deserialize, Clone, Debug, Default)]
pub struct EndpointCfg {
	pub name: String,
	/// index into Plan.cas
	pub ca: usize,
	#[serde(default, skip_serializing_if = "Vec::is_empty")]
	pub rate_limits: Vec<String>,
	#[serde(default = "yes")]
	pub tos_agreed: bool,
}
fn yes() -> bool {
	true
}

#[derive(Serialize, Deserialize, Clone, Debug, Default)]
pub struct HookCfg {
	pub name: String,
	pub types: Vec<String>,
	/// always the simulated program "simhook" unless a fault plan says otherwise
	#[serde(default = "simhook")]
	pub cmd: String,
	#[serde(default, skip_serializing_if = "Option::is_none")]
	pub args: Option<Vec<String>>,
	#[serde(default, skip_serializing_if = "Option::is_none")]
	pub stdin: Option<String>,
	#[serde(default, skip_serializing_if = "Option::is_none")]
	pub stdin_str: Option<String>,
	#[serde(default, skip_serializing_if = "Option::is_none")]
	pub stdout: Option<String>,
	#[serde(default, skip_serializing_if = "Option::is_none")]
	pub stderr: Option<String>,
	#[serde(default, skip_serializing_if = "Option::is_none")]
	pub allow_failure: Option<bool>,
	/// exit status of the simulated program, per invocation index (cycled); empty = always 0.
	/// 0..255 = exit code, -1 = killed by a signal (code() == None), -2 = spawn fails (ENOENT)
	#[serde(default, skip_serializing_if = "Vec::is_empty")]
	pub exits: Vec<i32>,
}
fn simhook() -> String {
	"simhook".to_string()
}

#[derive(Serialize, Deserialize, Clone, Debug, Default)]
pub struct GroupCfg {
	pub name: String,
	pub hooks: Vec<String>,
}

#[derive(Serialize, Deserialize, Clone, Debug, Default, PartialEq)]
pub struct EabCfg {
	pub identifier: String,
	/// base64url of the MAC key
	pub key: String,
	#[serde(default, skip_serializing_if = "Option::is_none")]
	pub signature_algorithm: Option<String>,
}

#[derive(Serialize, Deserialize, Clone, Debug, Default)]
pub struct AccountCfg {
	pub name: String,
	pub contacts: Vec<String>,
	#[serde(default, skip_serializing_if = "Option::is_none")]
	pub key_type: Option<String>,
	#[serde(default, skip_serializing_if = "Option::is_none")]
	pub signature_algorithm: Option<String>,
	#[serde(default, skip_serializing_if = "Option::is_none")]
	pub external_account: Option<EabCfg>,
	#[serde(default, skip_serializing_if = "BTreeMap::is_empty")]
	pub env: BTreeMap<String, String>,
	#[serde(default, skip_serializing_if = "Vec::is_empty")]
	pub hooks: Vec<String>,
}

#[derive(Serialize, Deserialize, Clone, Debug, Default)]
pub struct IdentCfg {
	#[serde(default, skip_serializing_if = "Option::is_none")]
	pub dns: Option<String>,
	#[serde(default, skip_serializing_if = "Option::is_none")]
	pub ip: Option<String>,
	pub challenge: String,
	#[serde(default, skip_serializing_if = "BTreeMap::is_empty")]
	pub env: BTreeMap<String, String>,
}

impl IdentCfg {
	pub fn raw(&self) -> &str {
		match (&self.dns, &self.ip) {
			(Some(d), _) => d,
			(None, Some(i)) => i,
			_ => "",
		}
	}
}

#[derive(Serialize, Deserialize, Clone, Debug, Default)]
pub struct CertCfg {
	#[serde(default, skip_serializing_if = "Option::is_none")]
	pub name: Option<String>,
	pub account: String,
	pub endpoint: String,
	pub identifiers: Vec<IdentCfg>,
	#[serde(default, skip_serializing_if = "Option::is_none")]
	pub key_type: Option<String>,
	#[serde(default, skip_serializing_if = "Option::is_none")]
	pub csr_digest: Option<String>,
	#[serde(default, skip_serializing_if = "Option::is_none")]
	pub kp_reuse: Option<bool>,
	#[serde(default, skip_serializing_if = "Option::is_none")]
	pub renew_delay: Option<String>,
	#[serde(default, skip_serializing_if = "Option::is_none")]
	pub random_early_renew: Option<String>,
	#[serde(default, skip_serializing_if = "BTreeMap::is_empty")]
	pub subject_attributes: BTreeMap<String, String>,
	#[serde(default, skip_serializing_if = "BTreeMap::is_empty")]
	pub env: BTreeMap<String, String>,
	#[serde(default, skip_serializing_if = "Vec::is_empty")]
	pub hooks: Vec<String>,
}

#[derive(Serialize, Deserialize, Clone, Debug)]
pub struct CaCfg {
	pub host: String,
	#[serde(default)]
	pub knobs: Knobs,
}

#[derive(Serialize, Deserialize, Clone, Debug)]
pub struct Knobs {
	/// "as_requested" | "reversed" | "shuffled"
	#[serde(default = "as_requested")]
	pub authz_order: String,
	#[serde(default = "as_requested")]
	pub chall_order: String,
	/// challenge types the CA offers (subset of http-01, dns-01, tls-alpn-01); wildcard
	/// authorizations are always restricted to dns-01 ∩ offer unless `wildcard_any`
	#[serde(default = "all_challs")]
	pub offer: Vec<String>,
	#[serde(default, skip_serializing_if = "is_false")]
	pub wildcard_any: bool,
	/// also list a challenge of a type acmed does not know
	#[serde(default, skip_serializing_if = "is_false")]
	pub extra_unknown_chall: bool,
	/// status given to the i-th authorization of each order at creation (cycled; "" = pending)
	#[serde(default, skip_serializing_if = "Vec::is_empty")]
	pub authz_status: Vec<String>,
	/// polls (POST-as-GET after the challenge POST) an authorization stays non-valid
	#[serde(default)]
	pub polls_authz: u32,
	/// polls an order stays `pending` although every authorization is valid
	#[serde(default)]
	pub polls_ready: u32,
	/// polls an order stays `processing` after finalize
	#[serde(default)]
	pub polls_valid: u32,
	#[serde(default, skip_serializing_if = "is_false")]
	pub nonce_on_get: bool,
	#[serde(default, skip_serializing_if = "Option::is_none")]
	pub nonce_ttl_s: Option<u64>,
	#[serde(default = "yes")]
	pub orders_url: bool,
	/// certificate lifetime per issuance (cycled), seconds; may be <= 0 (already expired)
	#[serde(default = "default_lifetime")]
	pub lifetime_s: Vec<i64>,
	/// number of certificates in the served chain per issuance (cycled), 1..4
	#[serde(default = "default_chain")]
	pub chain_len: Vec<u32>,
	/// "as_requested" | "drop_last" | "extra" | "permuted"
	#[serde(default = "as_requested")]
	pub san_mode: String,
	#[serde(default, skip_serializing_if = "is_false")]
	pub eab_required: bool,
	/// answer given to a kid-request whose signature does not verify: "unauthorized" | "malformed"
	#[serde(default = "unauthorized")]
	pub bad_sig_answer: String,
	/// scripted badNonce answers: every n-th POST is refused once with badNonce (0 = never)
	#[serde(default, skip_serializing_if = "is_zero")]
	pub bad_nonce_every: u64,
	/// final status of a challenge validation: "valid" (default) | "invalid"
	#[serde(default, skip_serializing_if = "Vec::is_empty")]
	pub validation: Vec<String>,
	/// status shown for the i-th challenge created (cycled; "" = pending) while its authorization is
	/// pending: "processing" (the CA is still busy with an earlier response) or "valid" (the window
	/// in which the challenge is already valid and the authorization not yet)
	#[serde(default, skip_serializing_if = "Vec::is_empty")]
	pub chall_status: Vec<String>,
	/// served certificate chains use CRLF line endings (PEM allows it; OpenSSL reads it)
	#[serde(default, skip_serializing_if = "is_false")]
	pub pem_crlf: bool,
	/// line ending of served PEM ("\n")
	#[serde(default, skip_serializing_if = "is_false")]
	pub meta: bool,
}

fn as_requested() -> String {
	"as_requested".into()
}
fn unauthorized() -> String {
	"unauthorized".into()
}
fn all_challs() -> Vec<String> {
	vec!["http-01".into(), "dns-01".into(), "tls-alpn-01".into()]
}
fn default_lifetime() -> Vec<i64> {
	vec![90 * 86400]
}
fn default_chain() -> Vec<u32> {
	vec![2]
}

impl Default for Knobs {
	fn default() -> Self {
		serde_json::from_str("{}").unwrap()
	}
}

#[derive(Serialize, Deserialize, Clone, Debug)]
#[serde(tag = "op", rename_all = "snake_case")]
pub enum Op {
	/// boot the daemon (MainEventLoop::new) if it is not running, then run until every
	/// certificate has completed `attempts` more attempts (since this op began) or the horizon
	Run {
		#[serde(default = "one")]
		attempts: u32,
		#[serde(default)]
		max_virtual_s: u64,
		/// only these certificates (by index) must reach the count; empty = all
		#[serde(default, skip_serializing_if = "Vec::is_empty")]
		only: Vec<usize>,
	},
	/// run for a span of virtual time (whatever happens)
	RunFor {
		virtual_s: u64,
	},
	/// stop the daemon (drop its future = process crash) now; `Run` boots it again
	Stop,
	/// stop the daemon at the n-th event of the given kind counted from now, wherever it is
	CrashAt {
		kind: String,
		nth: u64,
		max_virtual_s: u64,
	},
	/// replace parts of the configuration (applied to Plan.config; TOML is re-emitted at next boot)
	Edit {
		patch: Vec<EditItem>,
	},
	CaForget {
		ca: usize,
		account: String,
	},
	/// truncate the account file of `account` to `at` bytes (while the daemon is stopped)
	TruncateAccount {
		account: String,
		at: u64,
	},
	/// for every offset 0, step, 2*step, .. < len of the account file: truncate a copy to that offset,
	/// boot the daemon, stop it, restore the file (crash_points: every truncation point)
	TruncateSweep {
		account: String,
		step: u64,
	},
	/// remove a certificate's file: which = "pk" | "crt"
	RemoveFile {
		cert: usize,
		which: String,
	},
	/// step the wall clock (only legal between attempts, while stopped or sleeping)
	Skew {
		seconds: i64,
	},
	/// CA behaviour switch from now on
	Knob {
		ca: usize,
		patch: serde_json::Value,
	},
}

#[derive(Serialize, Deserialize, Clone, Debug)]
#[serde(tag = "k", rename_all = "snake_case")]
pub enum EditItem {
	Contacts {
		account: String,
		contacts: Vec<String>,
	},
	KeyType {
		account: String,
		key_type: String,
	},
	Eab {
		account: String,
		eab: Option<EabCfg>,
	},
	CertIdentifiers {
		cert: usize,
		identifiers: Vec<IdentCfg>,
	},
	CertKeyType {
		cert: usize,
		key_type: String,
	},
	GlobalModes {
		cert_file_mode: Option<u32>,
		pk_file_mode: Option<u32>,
	},
}

#[derive(Serialize, Deserialize, Clone, Debug, Default)]
pub struct Fault {
	/// "net" | "fs" | "proc"
	pub site: String,
	// ---- net ----
	#[serde(default)]
	pub ca: usize,
	/// request class: directory newNonce newAccount account keyChange newOrder authz challenge
	/// authzPoll orderPollReady finalize orderPollValid certificate ("" = any)
	#[serde(default, skip_serializing_if = "String::is_empty")]
	pub class: String,
	/// 1-based: first affected transmission of that class at that CA (counted over the whole run)
	#[serde(default)]
	pub nth: u64,
	/// number of consecutive transmissions affected (>= 1); u64::MAX-like = forever
	#[serde(default)]
	pub count: u64,
	/// restrict to requests belonging to orders of this certificate (by index)
	#[serde(default, skip_serializing_if = "Option::is_none")]
	pub cert: Option<usize>,
	// ---- fs ----
	/// path selector: "pk:<i>" | "crt:<i>" | "account:<name>"
	#[serde(default, skip_serializing_if = "String::is_empty")]
	pub path: String,
	/// "open_r" | "open_w" | "read" | "write"
	#[serde(default, skip_serializing_if = "String::is_empty")]
	pub fsop: String,
	// ---- proc ----
	#[serde(default, skip_serializing_if = "String::is_empty")]
	pub hook: String,
	// ---- what happens ----
	pub kind: FaultKind,
}

#[derive(Serialize, Deserialize, Clone, Debug)]
#[serde(tag = "k", rename_all = "snake_case")]
pub enum FaultKind {
	/// problem document; type "" = member absent; detail optional
	Acme {
		typ: String,
		status: u16,
		#[serde(default)]
		detail: Option<String>,
	},
	/// arbitrary HTTP answer (non-JSON error body, empty body, 2xx with a problem document...)
	Http {
		status: u16,
		body: String,
		#[serde(default)]
		content_type: String,
	},
	/// connection refused / reset before the request reaches the CA
	Refuse,
	/// request processed by the CA, reply lost
	ResetAfter,
	/// reply delayed by this many milliseconds of virtual time
	Delay { ms: u64 },
	/// success reply with a header removed: "Location" | "Replay-Nonce"
	DropHeader { name: String },
	/// Replay-Nonce replaced by an invalid value
	BadNonceHeader,
	/// success reply with a JSON member removed
	DropField { name: String },
	/// success reply with a JSON member replaced
	SetField {
		name: String,
		value: serde_json::Value,
	},
	/// certificate body replaced: "garbage" | "empty" | "other_key" | "truncated" | "not_utf8" | "issuer_first" | "leaf_then_truncated"
	CertBody { what: String },
	/// reply body that is not JSON (on a 2xx)
	NotJson,
	/// fs: errno name "EIO" | "ENOSPC" | "EACCES"; `after` = bytes written before failing
	Errno {
		errno: String,
		#[serde(default)]
		after: u64,
	},
	/// proc: exit code / signal / spawn failure
	Exit { code: i32 },
	#[serde(other)]
	Nop,
}

impl Default for FaultKind {
	fn default() -> Self {
		FaultKind::Nop
	}
}

#[derive(Serialize, Deserialize, Clone, Debug)]
pub struct Sched {
	/// network one-way latency bounds, microseconds (floor 100)
	#[serde(default = "net_us")]
	pub net_us: (u64, u64),
	#[serde(default = "fs_us")]
	pub fs_us: (u64, u64),
	#[serde(default = "proc_ms")]
	pub proc_ms: (u64, u64),
	#[serde(default)]
	pub zero_yield: bool,
	#[serde(default)]
	pub map_salt: u64,
	/// "seeded" | "min" | "max"
	#[serde(default = "seeded")]
	pub jitter: String,
	/// write_all chunking bounds, bytes
	#[serde(default = "chunk")]
	pub chunk: (u64, u64),
	#[serde(default = "max_events")]
	pub max_events: u64,
	/// async-lock's mutex fairness heuristic (upstream: REAL elapsed time > 500 us since the waiter
	/// started => fair strategy).  false: same rule on the virtual clock; true: always fair (slow machine).
	#[serde(default)]
	pub lock_starved: bool,
}
fn net_us() -> (u64, u64) {
	(100, 80_000)
}
fn fs_us() -> (u64, u64) {
	(1, 900)
}
fn proc_ms() -> (u64, u64) {
	(1, 300)
}
fn seeded() -> String {
	"seeded".into()
}
fn chunk() -> (u64, u64) {
	(1, 1 << 20)
}
fn max_events() -> u64 {
	200_000
}
impl Default for Sched {
	fn default() -> Self {
		serde_json::from_str("{}").unwrap()
	}
}
