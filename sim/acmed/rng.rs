// Seam for `rand::thread_rng` (renewal jitter in certificate.rs).  Three modes so that both ends
// of [0, random_early_renew) are sat on: seeded, always-minimum, always-maximum.
use super::world;
use rand::{Error, RngCore};

pub enum SimRng {
	Seeded(super::prng::Rng),
	Min,
	Max,
}

impl RngCore for SimRng {
	fn next_u32(&mut self) -> u32 {
		self.next_u64() as u32
	}
	fn next_u64(&mut self) -> u64 {
		match self {
			SimRng::Seeded(r) => r.next_u64(),
			SimRng::Min => 0,
			SimRng::Max => u64::MAX,
		}
	}
	fn fill_bytes(&mut self, dest: &mut [u8]) {
		for chunk in dest.chunks_mut(8) {
			let v = self.next_u64().to_le_bytes();
			chunk.copy_from_slice(&v[..chunk.len()]);
		}
	}
	fn try_fill_bytes(&mut self, dest: &mut [u8]) -> Result<(), Error> {
		self.fill_bytes(dest);
		Ok(())
	}
}

pub fn thread_rng() -> SimRng {
	world::with(|w| {
		w.count("probe.jitter_drawn");
		match w.plan.sched.jitter.as_str() {
			"min" => SimRng::Min,
			"max" => SimRng::Max,
			_ => SimRng::Seeded(super::prng::Rng::new(w.streams.draw("jitter"))),
		}
	})
}
