// Timer and monotonic-clock seams (replace tokio::time::sleep and std::time::Instant).
use super::world::{self, Ev};
use std::cell::Cell;
use std::future::Future;
use std::pin::Pin;
use std::rc::Rc;
use std::task::{Context, Poll};
use std::time::Duration;

pub struct Sleep {
	ns: u128,
	fired: Option<Rc<Cell<bool>>>,
	traced: bool,
	yielded: bool,
}

/// Seam for `tokio::time::sleep`.
pub fn sleep(d: Duration) -> Sleep {
	Sleep {
		ns: d.as_nanos(),
		fired: None,
		traced: true,
		yielded: false,
	}
}

/// Harness-internal delay (I/O latency); not traced as a daemon timer.
pub fn delay_ns(ns: u128) -> Sleep {
	Sleep {
		ns,
		fired: None,
		traced: false,
		yielded: false,
	}
}

impl Future for Sleep {
	type Output = ();
	fn poll(mut self: Pin<&mut Self>, cx: &mut Context<'_>) -> Poll<()> {
		if let Some(f) = &self.fired {
			if f.get() {
				return Poll::Ready(());
			}
			// spurious poll (FuturesUnordered never does it, but be correct): re-arm is not
			// needed, the timer entry still holds a waker for this task.
			return Poll::Pending;
		}
		if self.traced {
			let ns = self.ns;
			world::with(|w| {
				w.push(Ev::TimerSleep { ns });
			});
		}
		if self.ns == 0 {
			// tokio completes an elapsed sleep at the first poll unless its co-operative budget
			// is exhausted, in which case it yields once: the run's zero_yield coin picks one.
			let yield_once =
				self.traced && world::with(|w| w.plan.sched.zero_yield) && !self.yielded;
			if !yield_once {
				return Poll::Ready(());
			}
			self.yielded = true;
		}
		let ns = self.ns;
		let fired = world::with(|w| w.add_timer(ns, cx.waker().clone()));
		self.fired = Some(fired);
		Poll::Pending
	}
}

/// Seam for `std::time::Instant` (endpoint.rs limiter log): a signed nanosecond count on the
/// virtual monotonic clock.  `checked_sub` never returns None, which is what Linux's Instant does
/// for any realistic period (boot-relative clock, periods far below the uptime bound).
#[derive(Clone, Copy, Debug, PartialEq, Eq, PartialOrd, Ord, Hash)]
pub struct Instant(i128);

impl Instant {
	pub fn now() -> Instant {
		Instant(world::with(|w| w.mono) as i128)
	}

	pub fn checked_sub(&self, d: Duration) -> Option<Instant> {
		Some(Instant(self.0 - d.as_nanos() as i128))
	}

	pub fn checked_add(&self, d: Duration) -> Option<Instant> {
		Some(Instant(self.0 + d.as_nanos() as i128))
	}

	pub fn elapsed(&self) -> Duration {
		let now = Instant::now();
		Duration::from_nanos((now.0 - self.0).max(0) as u64)
	}

	pub fn duration_since(&self, earlier: Instant) -> Duration {
		Duration::from_nanos((self.0 - earlier.0).max(0) as u64)
	}
}

pub fn now_ns() -> u128 {
	world::with(|w| w.mono)
}
