// Transport seam: `send(RequestBuilder)` replaces `RequestBuilder::send()`.  The request is a real
// reqwest::Request built by the shipped code; the reply is a real reqwest::Response built from an
// http::Response<Vec<u8>>, so everything above this line in http.rs (nonce extraction, status
// check, body decoding, problem parsing, retry loop) is the shipped code on real objects.
use super::ca::{CaEnv, Reply, Req};
use super::time::delay_ns;
use super::world::{self, Ev};
use acme_common::error::Error;
use reqwest::{Client, RequestBuilder, Response};
use std::cell::RefCell;

thread_local! {
	static CLIENT: RefCell<Option<Client>> = RefCell::new(None);
}

/// Seam for the tail of `get_client`: building a reqwest client parses the system CA bundle
/// (25-50 ms, measured); the simulator never opens a socket, so one client per process is enough.
/// The root-certificate files have already been read and parsed by the shipped loop above.
pub fn cached_client() -> Result<Client, Error> {
	CLIENT.with(|c| {
		let mut c = c.borrow_mut();
		if c.is_none() {
			let cl = reqwest::ClientBuilder::new()
				.build()
				.map_err(|e| Error::from(e.to_string()))?;
			*c = Some(cl);
		}
		Ok(c.as_ref().unwrap().clone())
	})
}

fn one_way_ns() -> u128 {
	world::with(|w| {
		let (lo, hi) = w.plan.sched.net_us;
		// every network exchange costs at least 100 us of virtual time, as in reality
		w.streams.range("net.lat", lo.max(50), hi.max(50)) as u128 * 1_000
	})
}

pub async fn send(rb: RequestBuilder) -> Result<Response, String> {
	let (_client, req) = rb.build_split();
	let req = req.map_err(|e| format!("request build error: {}", e))?;
	let method = req.method().as_str().to_string();
	let url = req.url().as_str().to_string();
	let host = req.url().host_str().unwrap_or("").to_string();
	let headers: Vec<(String, String)> = req
		.headers()
		.iter()
		.map(|(k, v)| (k.as_str().to_string(), v.to_str().unwrap_or("").to_string()))
		.collect();
	let body: Vec<u8> = req
		.body()
		.and_then(|b| b.as_bytes())
		.map(|b| b.to_vec())
		.unwrap_or_default();

	let (tx, ca_idx) = world::with(|w| {
		let tx = w.id();
		let ca = w.cas.iter().position(|c| c.host == host);
		w.push(Ev::NetSend {
			tx,
			ca: ca.unwrap_or(usize::MAX),
			method: method.clone(),
			url: url.clone(),
		});
		(tx, ca)
	});
	let ca_idx = match ca_idx {
		Some(i) => i,
		None => {
			return Err(format!(
				"error sending request for url ({}): dns error: no such host (simulated)",
				url
			));
		}
	};
	delay_ns(one_way_ns()).await;
	// the request reaches the CA now
	let sreq = Req {
		tx,
		method,
		url: url.clone(),
		headers,
		body,
	};
	let (reply, _class) = world::with(|w| {
		let mono = w.mono;
		let wall = w.wall_unix();
		let mut seq = w.seq;
		let world::World {
			cas,
			streams,
			faults,
			fault_fired,
			counters,
			..
		} = w;
		let mut env = CaEnv {
			mono,
			wall,
			seq: &mut seq,
			streams,
			faults,
			fired: fault_fired,
			counters,
		};
		let (reply, class, fname) = cas[ca_idx].handle(&sreq, &mut env);
		w.push(Ev::NetDeliver {
			tx,
			ca: ca_idx,
			class: class.clone(),
			fault: fname,
		});
		(reply, class)
	});
	match reply {
		Reply::Err(e) => {
			delay_ns(one_way_ns()).await;
			world::with(|w| {
				w.push(Ev::NetReply {
					tx,
					ca: ca_idx,
					status: 0,
					err: Some(e.clone()),
				});
			});
			Err(e)
		}
		Reply::Resp(r, extra_ms) => {
			delay_ns(one_way_ns() + extra_ms as u128 * 1_000_000).await;
			let mut b = http::Response::builder().status(r.status);
			for (k, v) in r.headers.iter() {
				b = b.header(k.as_str(), v.as_str());
			}
			let status = r.status;
			let resp = b
				.body(r.body)
				.map_err(|e| format!("simulated response build error: {}", e))?;
			world::with(|w| {
				w.push(Ev::NetReply {
					tx,
					ca: ca_idx,
					status,
					err: None,
				});
			});
			Ok(Response::from(resp))
		}
	}
}
