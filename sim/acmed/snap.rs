// Synchronous observations of the scratch tree (plain std::fs, never through the seams): the
// installed pair of a certificate, file metadata, the daemon's in-memory accounts.
use super::toml_emit;
use super::util::sha256_hex;
use super::world::World;
use openssl::asn1::Asn1Time;
use openssl::pkey::PKey;
use openssl::x509::X509;
use std::collections::BTreeMap;

#[derive(Clone, Debug, Default)]
pub struct PairSnap {
	pub cert_idx: Option<usize>,
	pub crt_present: bool,
	pub pk_present: bool,
	pub crt_hash: String,
	pub pk_hash: String,
	pub crt_len: usize,
	pub pk_len: usize,
	pub crt_parses: bool,
	pub n_certs: usize,
	pub leaf_pub: Vec<u8>,
	pub pk_parses: bool,
	pub pk_pub: Vec<u8>,
	pub matches: bool,
	pub sans: Vec<String>,
	pub not_after: i64,
}

pub fn cert_index(w: &World, cert_id: &str) -> Option<usize> {
	w.plan
		.config
		.certificates
		.iter()
		.position(|c| toml_emit::cert_id(c) == cert_id)
}

pub fn unix_of(t: &openssl::asn1::Asn1TimeRef) -> i64 {
	match Asn1Time::from_unix(0).and_then(|e| e.diff(t)) {
		Ok(d) => d.days as i64 * 86400 + d.secs as i64,
		Err(_) => 0,
	}
}

pub fn pair(w: &World, cert_id: &str) -> PairSnap {
	let mut s = PairSnap::default();
	let idx = match cert_index(w, cert_id) {
		Some(i) => i,
		None => return s,
	};
	s.cert_idx = Some(idx);
	let crt_path = toml_emit::path_of(&w.plan, &w.scratch, &format!("crt:{}", idx)).unwrap();
	let pk_path = toml_emit::path_of(&w.plan, &w.scratch, &format!("pk:{}", idx)).unwrap();
	if let Ok(b) = std::fs::read(&crt_path) {
		s.crt_present = true;
		s.crt_hash = sha256_hex(&b);
		s.crt_len = b.len();
		if let Ok(chain) = X509::stack_from_pem(&b) {
			if let Some(leaf) = chain.first() {
				s.crt_parses = true;
				s.n_certs = chain.len();
				s.leaf_pub = leaf
					.public_key()
					.and_then(|k| k.public_key_to_der())
					.unwrap_or_default();
				s.not_after = unix_of(leaf.not_after());
				if let Some(sans) = leaf.subject_alt_names() {
					for g in sans.iter() {
						if let Some(d) = g.dnsname() {
							s.sans.push(d.to_string());
						} else if let Some(i) = g.ipaddress() {
							s.sans.push(super::ca::issue::ip_from_bytes(i));
						}
					}
				}
			}
		}
	}
	if let Ok(b) = std::fs::read(&pk_path) {
		s.pk_present = true;
		s.pk_hash = sha256_hex(&b);
		s.pk_len = b.len();
		if let Ok(k) = PKey::private_key_from_pem(&b) {
			s.pk_parses = true;
			s.pk_pub = k.public_key_to_der().unwrap_or_default();
		}
	}
	s.matches = s.crt_parses && s.pk_parses && !s.leaf_pub.is_empty() && s.leaf_pub == s.pk_pub;
	s
}

#[derive(Clone, Debug, Default, PartialEq)]
pub struct AccountSnap {
	pub name: String,
	pub current_key: String, // sha256 of private DER
	pub current_alg: String,
	pub current_type: String,
	pub past_keys: Vec<String>,
	pub endpoints: BTreeMap<String, (String, String, String, String, String)>,
	pub contacts: Vec<String>,
	pub thumb: String,
}

/// Snapshot of the daemon's in-memory accounts (through the H6 accessor handles).  None if an
/// account is locked for writing right now (an attempt is inside `synchronize`).
pub fn accounts(w: &World) -> Vec<Option<AccountSnap>> {
	w.accounts
		.iter()
		.map(|(name, h)| {
			let g = h.try_read()?;
			let a = &*g;
			let kh = |k: &crate::account::AccountKey| {
				sha256_hex(&k.key.private_key_to_der().unwrap_or_default())
			};
			let mut eps = BTreeMap::new();
			for (k, e) in a.endpoints.iter() {
				eps.insert(
					k.clone(),
					(
						e.account_url.clone(),
						e.orders_url.clone(),
						super::util::hex(&e.key_hash),
						super::util::hex(&e.contacts_hash),
						super::util::hex(&e.external_account_hash),
					),
				);
			}
			let thumb = super::ca::keys::jwk_of_private(&a.current_key.key.inner_key)
				.ok()
				.and_then(|v| super::ca::keys::parse_jwk(&v).ok())
				.map(|k| k.thumb)
				.unwrap_or_default();
			Some(AccountSnap {
				name: name.clone(),
				current_key: kh(&a.current_key),
				current_alg: a.current_key.signature_algorithm.to_string(),
				current_type: a.current_key.key.key_type.to_string(),
				past_keys: a.past_keys.iter().map(kh).collect(),
				endpoints: eps,
				contacts: a.contacts.iter().map(|c| c.to_string()).collect(),
				thumb,
			})
		})
		.collect()
}

#[derive(Clone, Debug, Default)]
pub struct StatSnap {
	pub mode: u32,
	pub uid: u32,
	pub gid: u32,
	pub len: u64,
}

pub fn stat(path: &str) -> Option<StatSnap> {
	use std::os::unix::fs::MetadataExt;
	let m = std::fs::metadata(path).ok()?;
	Some(StatSnap {
		mode: m.mode() & 0o7777,
		uid: m.uid(),
		gid: m.gid(),
		len: m.len(),
	})
}
