// Storage seam (replaces tokio::fs::{File, OpenOptions} in storage.rs).  Every operation awaits a
// drawn latency (a real yield point, as with tokio's spawn_blocking), applies a scheduled fault,
// then performs the REAL syscall synchronously on the per-run scratch directory: O_TRUNC or its
// absence, open(2) mode and umask, chown(2), Path::is_file() all have kernel semantics.
use super::plan::FaultKind;
use super::time::delay_ns;
use super::world::{self, Ev};
use std::io::{self, Read, Write};
use std::os::unix::fs::OpenOptionsExt;
use std::path::{Path, PathBuf};

#[derive(Clone, Debug, Default)]
pub struct OpenOptions {
	read: bool,
	write: bool,
	append: bool,
	truncate: bool,
	create: bool,
	create_new: bool,
	mode: Option<u32>,
}

pub struct File {
	inner: Option<std::fs::File>,
	id: u64,
	path: PathBuf,
	sel: String,
	written: Vec<u8>,
	wrote: bool,
	write_failed: bool,
	in_flight: bool,
}

async fn latency(label: &str) {
	let ns = world::with(|w| {
		let (lo, hi) = w.plan.sched.fs_us;
		w.streams.range(label, lo, hi) as u128 * 1_000
	});
	delay_ns(ns).await;
}

fn errno_of(name: &str) -> io::Error {
	let code = match name {
		"EIO" => 5,
		"ENOSPC" => 28,
		"EACCES" => 13,
		"ENOENT" => 2,
		_ => 5,
	};
	io::Error::from_raw_os_error(code)
}

/// Map a path under the scratch tree to its selector ("pk:<i>", "crt:<i>", "account:<name>").
pub fn selector(w: &world::World, path: &Path) -> String {
	let p = path.to_string_lossy().to_string();
	for (k, v) in super::toml_emit::known_paths(&w.plan, &w.scratch) {
		if v == p {
			return k;
		}
	}
	p
}

/// Is a fault scheduled for (selector, op)?  Counts every matching operation; fires on nth.
fn fs_fault(sel: &str, op: &str) -> Option<FaultKind> {
	world::with(|w| {
		let mut hit = None;
		for (f, seen) in w.faults.iter_mut() {
			if f.site != "fs" || f.path != sel || f.fsop != op {
				continue;
			}
			*seen += 1;
			let first = f.nth.max(1);
			let count = f.count.max(1);
			if *seen >= first && *seen < first.saturating_add(count) {
				hit = Some(f.kind.clone());
			}
		}
		if let Some(FaultKind::Errno { errno, .. }) = &hit {
			let key = format!("fs.{}.{}", op, errno);
			w.fired(&key);
		}
		hit
	})
}

impl OpenOptions {
	pub fn new() -> Self {
		Default::default()
	}
	pub fn read(&mut self, v: bool) -> &mut Self {
		self.read = v;
		self
	}
	pub fn write(&mut self, v: bool) -> &mut Self {
		self.write = v;
		self
	}
	pub fn append(&mut self, v: bool) -> &mut Self {
		self.append = v;
		self
	}
	pub fn truncate(&mut self, v: bool) -> &mut Self {
		self.truncate = v;
		self
	}
	pub fn create(&mut self, v: bool) -> &mut Self {
		self.create = v;
		self
	}
	pub fn create_new(&mut self, v: bool) -> &mut Self {
		self.create_new = v;
		self
	}
	pub fn mode(&mut self, m: u32) -> &mut Self {
		self.mode = Some(m);
		self
	}

	pub async fn open(&self, path: impl AsRef<Path>) -> io::Result<File> {
		let path = path.as_ref().to_path_buf();
		let writing = self.write || self.append;
		latency(if writing { "fs.open_w" } else { "fs.open_r" }).await;
		let (id, sel) = world::with(|w| (w.id(), selector(w, &path)));
		let existed = path.is_file();
		let fault = fs_fault(&sel, if writing { "open_w" } else { "open_r" });
		let res = match fault {
			Some(FaultKind::Errno { errno, .. }) => Err(errno_of(&errno)),
			_ => {
				let mut o = std::fs::OpenOptions::new();
				o.read(self.read)
					.write(self.write)
					.append(self.append)
					.truncate(self.truncate)
					.create(self.create)
					.create_new(self.create_new);
				if let Some(m) = self.mode {
					o.mode(m);
				}
				o.open(&path)
			}
		};
		let mode = self.mode;
		let err = res.as_ref().err().map(|e| e.to_string());
		world::with(|w| {
			w.push(Ev::FsOpen {
				id,
				path: path.to_string_lossy().to_string(),
				write: writing,
				existed,
				mode,
				err,
			});
		});
		let f = res?;
		Ok(File {
			inner: Some(f),
			id,
			path,
			sel,
			written: Vec::new(),
			wrote: false,
			write_failed: false,
			in_flight: false,
		})
	}
}

impl File {
	pub async fn open(path: impl AsRef<Path>) -> io::Result<File> {
		let mut o = OpenOptions::new();
		o.read(true);
		o.open(path).await
	}

	pub async fn create(path: impl AsRef<Path>) -> io::Result<File> {
		let mut o = OpenOptions::new();
		o.write(true).create(true).truncate(true);
		o.open(path).await
	}

	pub async fn read_to_end(&mut self, buf: &mut Vec<u8>) -> io::Result<usize> {
		latency("fs.read").await;
		let fault = fs_fault(&self.sel, "read");
		let res = match fault {
			Some(FaultKind::Errno { errno, .. }) => Err(errno_of(&errno)),
			_ => self.inner.as_mut().unwrap().read_to_end(buf),
		};
		let id = self.id;
		let (len, err) = match &res {
			Ok(n) => (*n, None),
			Err(e) => (0, Some(e.to_string())),
		};
		world::with(|w| {
			w.push(Ev::FsRead { id, len, err });
		});
		res
	}

	/// `write_all`, split into seeded chunks with a yield between them, so that "the daemon dies in
	/// the middle of a write" exists as a point in the schedule.
	pub async fn write_all(&mut self, data: &[u8]) -> io::Result<()> {
		self.wrote = true;
		self.in_flight = true;
		let fault = fs_fault(&self.sel, "write");
		let (fail_after, errno) = match fault {
			Some(FaultKind::Errno { errno, after }) => (Some(after as usize), errno),
			_ => (None, String::new()),
		};
		let mut off = 0usize;
		let id = self.id;
		while off < data.len() {
			latency("fs.write").await;
			let n = world::with(|w| {
				let (lo, hi) = w.plan.sched.chunk;
				w.streams.range("fs.chunk", lo.max(1), hi.max(1)) as usize
			});
			let mut end = (off + n).min(data.len());
			if let Some(fa) = fail_after {
				if end > fa {
					end = fa.max(off);
				}
			}
			if end > off {
				let r = self.inner.as_mut().unwrap().write_all(&data[off..end]);
				if let Err(e) = r {
					self.write_failed = true;
					let err = Some(e.to_string());
					world::with(|w| {
						w.push(Ev::FsWrite { id, len: off, err });
					});
					return Err(e);
				}
				self.written.extend_from_slice(&data[off..end]);
				off = end;
			}
			if let Some(fa) = fail_after {
				if off >= fa {
					self.write_failed = true;
					let e = errno_of(&errno);
					let err = Some(e.to_string());
					world::with(|w| {
						w.push(Ev::FsWrite { id, len: off, err });
					});
					return Err(e);
				}
			}
		}
		if data.is_empty() {
			latency("fs.write").await;
		}
		let len = data.len();
		self.in_flight = false;
		world::with(|w| {
			w.push(Ev::FsWrite { id, len, err: None });
		});
		Ok(())
	}

	pub async fn flush(&mut self) -> io::Result<()> {
		Ok(())
	}

	pub async fn sync_all(&self) -> io::Result<()> {
		Ok(())
	}
}

impl Drop for File {
	fn drop(&mut self) {
		let f = self.inner.take();
		drop(f);
		if !self.wrote || !world::active() {
			return;
		}
		// read back the real file: does it hold exactly what this open wrote? (C02)
		let disk = std::fs::read(&self.path).unwrap_or_default();
		let exact = disk == self.written;
		let id = self.id;
		let path = self.path.to_string_lossy().to_string();
		let written = self.written.len();
		let disk_len = disk.len();
		let complete = !self.write_failed && !self.in_flight;
		let stat = super::snap::stat(&path);
		world::with(|w| {
			if complete {
				w.push(Ev::FsClose {
					id,
					path,
					written,
					disk_len,
					exact,
					stat,
				});
			}
		});
	}
}

#[allow(dead_code)]
pub fn touch(path: &Path, data: &[u8], mode: u32) -> io::Result<()> {
	let mut o = std::fs::OpenOptions::new();
	o.write(true).create(true).truncate(true).mode(mode);
	let mut f = o.open(path)?;
	f.write_all(data)?;
	Ok(())
}
