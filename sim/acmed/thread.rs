// Seam for `std::thread::sleep`: acmed runs all certificates on one task, so a blocking sleep
// stalls everything while time passes.  The virtual clock advances; nothing yields; timers that
// became due fire late.
use super::world::{self, Ev};
use std::time::Duration;

pub fn sleep(d: Duration) {
	world::with(|w| {
		let ns = d.as_nanos();
		w.push(Ev::ThreadSleep { ns });
		w.mono += ns;
		w.set_clock();
	});
}
