// C13 -- private keys and account files are created with the configured mode and owner.
// Invariant at the storage seam, which performs the real open(2)/chown(2) on the scratch tree.
use super::super::run::RunResult;
use super::super::snap::StatSnap;
use super::super::world::Ev;
use super::{Report, Violation};
use std::collections::BTreeMap;

/// own /etc/passwd and /etc/group reader
fn lookup(file: &str, name: &str) -> Option<u32> {
	if !name.is_empty() && name.bytes().all(|b| b.is_ascii_digit()) {
		return name.parse().ok();
	}
	let s = std::fs::read_to_string(file).ok()?;
	for l in s.lines() {
		let f: Vec<&str> = l.split(':').collect();
		if f.len() > 2 && f[0] == name {
			return f[2].parse().ok();
		}
	}
	None
}

pub fn check(r: &RunResult, rep: &mut Report) {
	let w = &r.world;
	if r.panic.is_some() {
		return;
	}
	let umask = w.plan.world.umask;
	let my_uid = unsafe { getuid() };
	let my_gid = unsafe { getgid() };
	// last known metadata per path (pre-seeded files first)
	let mut known: BTreeMap<String, StatSnap> = BTreeMap::new();
	for pf in w.plan.world.pre_files.iter() {
		if let Some(p) = super::super::toml_emit::path_of(&w.plan, &w.scratch, &pf.target) {
			known.insert(
				p,
				StatSnap {
					mode: pf.mode.unwrap_or(0o600),
					uid: my_uid,
					gid: my_gid,
					len: 0,
				},
			);
		}
	}
	let mut open_existed: BTreeMap<u64, bool> = BTreeMap::new();
	// the configuration in force: global modes can be edited between boots (Edit ops)
	let mut g = w.plan_initial_global();
	for e in w.trace.iter() {
		match &e.ev {
			Ev::Op { what } => {
				if let Ok(v) = serde_json::from_str::<serde_json::Value>(what) {
					if v["op"] == "edit" {
						if let Some(items) = v["patch"].as_array() {
							for it in items {
								if it["k"] == "global_modes" {
									g.cert_file_mode =
										it["cert_file_mode"].as_u64().map(|x| x as u32);
									g.pk_file_mode = it["pk_file_mode"].as_u64().map(|x| x as u32);
								}
							}
						}
					}
				}
			}
			Ev::FsOpen {
				id,
				write: true,
				existed,
				..
			} => {
				open_existed.insert(*id, *existed);
			}
			Ev::FsClose {
				id,
				path,
				stat: Some(st),
				..
			} => {
				let sel = super::super::fs::selector(w, std::path::Path::new(path));
				let ftype = sel.split(':').next().unwrap_or("").to_string();
				let (cfg_mode, user, group) = match ftype.as_str() {
					"account" => (0o600u32, None, None),
					"pk" => (
						g.pk_file_mode.unwrap_or(0o600),
						g.pk_file_user.clone(),
						g.pk_file_group.clone(),
					),
					"crt" => (
						g.cert_file_mode.unwrap_or(0o644),
						g.cert_file_user.clone(),
						g.cert_file_group.clone(),
					),
					_ => continue,
				};
				rep.nontrivial = true;
				let existed = open_existed.get(id).copied().unwrap_or(false);
				let prev = known.get(path).cloned();
				rep.probe(
					&format!(
						"c13.{}.{}",
						ftype,
						if existed { "rewrite" } else { "create" }
					),
					1,
				);
				// mode: open(2) applies it at creation only, masked by the umask
				let want_mode = if existed {
					prev.as_ref().map(|p| p.mode).unwrap_or(st.mode)
				} else {
					cfg_mode & !umask & 0o7777
				};
				if st.mode != want_mode {
					rep.add(Violation::new(
						"C13",
						"file_mode",
						if existed {
							"rewrite_changed_mode"
						} else {
							"creation_mode"
						},
						&ftype,
						format!(
							"{} has mode {:o}, expected {:o} (configured {:o}, umask {:o})",
							sel, st.mode, want_mode, cfg_mode, umask
						),
					));
				}
				if ftype != "crt" && !existed && (st.mode & 0o077) != 0 && (cfg_mode & 0o077) == 0 {
					rep.add(Violation::new(
						"C13",
						"secret_file_readable_by_others",
						"",
						&ftype,
						format!("{:o}", st.mode),
					));
				}
				// owner: chown(2) on every write of key and certificate files when configured
				let base_uid = prev.as_ref().map(|p| p.uid).unwrap_or(my_uid);
				let base_gid = prev.as_ref().map(|p| p.gid).unwrap_or(my_gid);
				let want_uid = user
					.as_ref()
					.and_then(|u| lookup("/etc/passwd", u))
					.unwrap_or(base_uid);
				let want_gid = group
					.as_ref()
					.and_then(|u| lookup("/etc/group", u))
					.unwrap_or(base_gid);
				if user.is_some() || group.is_some() {
					rep.probe("c13.owner_configured", 1);
				}
				if my_uid == 0 && (st.uid != want_uid || st.gid != want_gid) {
					rep.add(Violation::new(
						"C13",
						"file_owner",
						"",
						&ftype,
						format!(
							"{} is owned by {}:{}, expected {}:{} (configured {:?}:{:?})",
							sel, st.uid, st.gid, want_uid, want_gid, user, group
						),
					));
				}
				known.insert(path.clone(), st.clone());
			}
			_ => {}
		}
	}
}

extern "C" {
	fn getuid() -> u32;
	fn getgid() -> u32;
}
