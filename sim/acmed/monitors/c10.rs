// C10 -- hooks run in declared order, by type, one at a time, with the documented data.
// Oracle: an independent model expands the plan's hook table (declaration order, groups in place,
// filter by type, stop at the first hard failure) and is compared, batch by batch, with what the
// process seam recorded.  Batches are located by anchor events of the trace (storage-seam opens
// and writes, the CA's authorization/challenge records, attempt markers).
use super::super::expect;
use super::super::plan::HookCfg;
use super::super::run::RunResult;
use super::super::toml_emit;
use super::super::world::{Ev, World};
use super::common::{self, hook_arg};
use super::{Report, Violation};
use std::collections::{BTreeMap, BTreeSet};

const ENV_KEYS: [&str; 6] = ["VK0", "VK1", "VK2", "VK3", "VK4", "VK5"];

struct Inv {
	id: u64,
	seq: u64,
	exit_seq: Option<u64>,
	code: Option<Option<i32>>,
	name: String,
	argv: Vec<String>,
	env: BTreeMap<String, String>,
	stdout: Option<String>,
	stderr: Option<String>,
	stdin_piped: bool,
}

fn invocations(w: &World) -> Vec<Inv> {
	let mut v: Vec<Inv> = vec![];
	let mut idx = BTreeMap::new();
	for e in w.trace.iter() {
		match &e.ev {
			Ev::HookSpawn { id, rec } => {
				idx.insert(*id, v.len());
				v.push(Inv {
					id: *id,
					seq: e.seq,
					exit_seq: None,
					code: None,
					name: hook_arg(&rec.argv, "hook").unwrap_or("").to_string(),
					argv: rec.argv.clone(),
					env: rec.env.clone(),
					stdout: rec.stdout.clone(),
					stderr: rec.stderr.clone(),
					stdin_piped: rec.stdin_piped,
				});
			}
			Ev::HookExit { id, code } => {
				if let Some(i) = idx.get(id) {
					v[*i].exit_seq = Some(e.seq);
					v[*i].code = Some(*code);
				}
			}
			_ => {}
		}
	}
	v
}

fn layered(layers: &[&BTreeMap<String, String>]) -> BTreeMap<String, String> {
	let mut m = BTreeMap::new();
	for l in layers {
		for (k, v) in l.iter() {
			m.insert(k.clone(), v.clone());
		}
	}
	m
}

fn hard_fail(h: &HookCfg, code: Option<Option<i32>>) -> bool {
	match code {
		Some(Some(0)) => false,
		Some(_) => h.allow_failure != Some(true),
		None => false, // never exited (run cut): nothing to say
	}
}

struct Ctx<'a> {
	w: &'a World,
	invs: Vec<Inv>,
	used: BTreeSet<usize>,
}

impl<'a> Ctx<'a> {
	/// Compare an observed batch (indices into invs, in order) with the expected hooks.
	/// Returns true if the batch ended with a hard failure.
	#[allow(clippy::too_many_arguments)]
	fn batch(
		&mut self,
		rep: &mut Report,
		what: &str,
		owner_hooks: &[String],
		typ: &str,
		observed: &[usize],
		env: &BTreeMap<String, String>,
		complete: bool,
	) -> bool {
		let cfg = &self.w.plan.config;
		let want: Vec<&HookCfg> = expect::expand_hooks(cfg, owner_hooks)
			.into_iter()
			.filter(|h| h.types.iter().any(|t| t == typ))
			.collect();
		rep.probe(&format!("c10.batches.{}", typ), 1);
		if want.len() > 1 {
			rep.probe("c10.batches_with_several_hooks", 1);
		}
		let mut failed = false;
		let mut k = 0;
		for (pos, h) in want.iter().enumerate() {
			if k >= observed.len() {
				if complete && !failed {
					rep.add(Violation::new(
						"C10",
						"hook_not_run",
						typ,
						what,
						format!(
							"expected {:?}, ran {:?}",
							want.iter().map(|h| h.name.as_str()).collect::<Vec<_>>(),
							observed
								.iter()
								.map(|i| self.invs[*i].name.as_str())
								.collect::<Vec<_>>()
						),
					));
				}
				break;
			}
			let inv = &self.invs[observed[k]];
			if inv.name != h.name {
				rep.add(Violation::new(
					"C10",
					"hook_order_or_selection",
					typ,
					what,
					format!(
						"position {}: expected {}, ran {} (expected list {:?})",
						pos,
						h.name,
						inv.name,
						want.iter().map(|h| h.name.as_str()).collect::<Vec<_>>()
					),
				));
				break;
			}
			self.used.insert(observed[k]);
			// environment
			for key in ENV_KEYS.iter() {
				let got = inv.env.get(*key);
				let exp = env.get(*key);
				if got != exp {
					// which layer won instead?
					let cause = match got {
						Some(g) if g.starts_with("proc:") => "process_environment_over_configured",
						Some(_) => "wrong_layer",
						None => "variable_missing",
					};
					rep.add(Violation::new(
						"C10",
						"hook_environment",
						cause,
						what,
						format!(
							"hook {} {}: {} = {:?}, expected {:?}",
							h.name, typ, key, got, exp
						),
					));
				} else if exp.is_some() {
					rep.probe("c10.env_values_checked", 1);
				}
			}
			// stdin_str template
			if h.stdin_str.is_some() {
				let want_in = format!(
					"in-{} {}|{}",
					h.name,
					env.get("VK0").cloned().unwrap_or_default(),
					env.get("VK1").cloned().unwrap_or_default()
				);
				let got_in = self
					.w
					.hook_stdin
					.get(&inv.id)
					.map(|b| String::from_utf8_lossy(b).to_string())
					.unwrap_or_default();
				if got_in != want_in || !inv.stdin_piped {
					rep.add(Violation::new(
						"C10",
						"hook_stdin",
						"",
						what,
						format!(
							"hook {}: stdin {:?}, expected {:?}",
							h.name, got_in, want_in
						),
					));
				}
				rep.probe("c10.stdin_checked", 1);
			}
			// stdout / stderr paths are templates too (the generated ones name an environment variable)
			for (which, tmpl, got) in [("stdout", &h.stdout, &inv.stdout), ("stderr", &h.stderr, &inv.stderr)] {
				if let Some(t) = tmpl {
					let want_out = t
						.replace(super::super::plan::SCRATCH, &self.w.scratch.to_string_lossy())
						.replace("{{ env.VK0 }}", &env.get("VK0").cloned().unwrap_or_default())
						.replace("{{ env.VK1 }}", &env.get("VK1").cloned().unwrap_or_default());
					if got.as_deref() != Some(want_out.as_str()) {
						rep.add(Violation::new(
							"C10",
							"hook_stdout",
							which,
							what,
							format!("hook {}: {} {:?}, expected {:?}", h.name, which, got, want_out),
						));
					}
					rep.probe("c10.output_paths_checked", 1);
				}
			}
			k += 1;
			if hard_fail(h, inv.code) {
				failed = true;
				rep.probe("c10.hard_failures", 1);
				// a non-zero exit aborts the operation: nothing else of this batch may run
				if k < observed.len() {
					rep.add(Violation::new(
						"C10",
						"batch_continued_after_hard_failure",
						typ,
						what,
						format!(
							"hook {} failed hard, yet {} ran",
							h.name, self.invs[observed[k]].name
						),
					));
				}
				break;
			} else if inv.code.map(|c| c != Some(0)).unwrap_or(false) {
				rep.probe("c10.tolerated_failures", 1);
			}
		}
		if !failed && k < observed.len() {
			rep.add(Violation::new(
				"C10",
				"unexpected_hook_in_batch",
				typ,
				what,
				format!(
					"{} ran although it is not selected for {}",
					self.invs[observed[k]].name, typ
				),
			));
		}
		for i in observed {
			self.used.insert(*i);
		}
		failed
	}
}

pub fn check(r: &RunResult, rep: &mut Report) {
	let w = &r.world;
	if r.panic.is_some() || !w.plan.faults.is_empty() {
		return;
	}
	let cfg = &w.plan.config;
	let proc_env = &w.plan.world.proc_env;
	let mut cx = Ctx {
		w,
		invs: invocations(w),
		used: BTreeSet::new(),
	};
	if cx.invs.is_empty() {
		return;
	}
	rep.nontrivial = true;
	// R1: one at a time (single-certificate plans: one task, hence a total order)
	if cfg.certificates.len() == 1 {
		let mut last_exit: Option<u64> = Some(0);
		for i in cx.invs.iter() {
			match last_exit {
				Some(x) if i.seq > x => {}
				_ => rep.add(Violation::new(
					"C10",
					"hooks_overlap",
					"",
					"",
					format!("hook {} was started before the previous one exited", i.name),
				)),
			}
			last_exit = i.exit_seq;
		}
	}
	let paths = toml_emit::known_paths(&w.plan, &w.scratch);
	let sel_of = |p: &str| paths.iter().find(|(_, v)| v == p).map(|(k, _)| k.clone());

	// ---- A. file batches, anchored on the storage seam's opens and writes ----
	let mut last_anchor: BTreeMap<String, u64> = BTreeMap::new(); // path -> seq after which pre hooks may lie
	let opens: Vec<(u64, u64, String, bool)> = w
		.trace
		.iter()
		.filter_map(|e| match &e.ev {
			Ev::FsOpen {
				id,
				path,
				write: true,
				existed,
				err: None,
				..
			} => Some((e.seq, *id, path.clone(), *existed)),
			_ => None,
		})
		.collect();
	for (open_seq, id, path, existed) in opens.iter() {
		let sel = match sel_of(path) {
			Some(s) => s,
			None => continue,
		};
		let (kind, owner) = match sel.split(':').next() {
			Some("account") => ("account", sel[8..].to_string()),
			Some(k) => (
				if k == "pk" { "pk" } else { "crt" },
				sel.split(':').nth(1).unwrap_or("").to_string(),
			),
			None => continue,
		};
		let (hooks, env): (Vec<String>, BTreeMap<String, String>) = if kind == "account" {
			match cfg.accounts.iter().find(|a| a.name == owner) {
				Some(a) => (a.hooks.clone(), layered(&[proc_env, &a.env])),
				None => continue,
			}
		} else {
			let i: usize = owner.parse().unwrap_or(0);
			let c = &cfg.certificates[i];
			(
				c.hooks.clone(),
				layered(&[proc_env, &cfg.global.env, &c.env]),
			)
		};
		let after = last_anchor.get(path).copied().unwrap_or(0);
		let write_seq = w
			.trace
			.iter()
			.find(|e| matches!(&e.ev, Ev::FsWrite { id: i, err: None, .. } if i == id))
			.map(|e| e.seq);
		let next_open = opens
			.iter()
			.filter(|o| o.2 == *path && o.0 > *open_seq)
			.map(|o| o.0)
			.min()
			.unwrap_or(u64::MAX);
		let with_path = |cx: &Ctx, lo: u64, hi: u64| -> Vec<usize> {
			cx.invs
				.iter()
				.enumerate()
				.filter(|(_, i)| {
					i.seq > lo
						&& i.seq < hi && hook_arg(&i.argv, "file_path") == Some(path.as_str())
				})
				.map(|(k, _)| k)
				.collect()
		};
		let pre_t = if *existed {
			"file-pre-edit"
		} else {
			"file-pre-create"
		};
		let post_t = if *existed {
			"file-post-edit"
		} else {
			"file-post-create"
		};
		let pre = with_path(&cx, after, *open_seq);
		// earlier attempts may have died in their pre batch (hard failure => no open at all): the
		// hooks seen since the last anchor are then several consecutive pre batches
		let mut rest: &[usize] = &pre;
		loop {
			let n_want = expect::expand_hooks(cfg, &hooks)
				.into_iter()
				.filter(|h| h.types.iter().any(|t| t == pre_t))
				.count();
			// one batch = up to n_want invocations, ending early at the first hard failure
			let mut take = 0;
			let wanted: Vec<&HookCfg> = expect::expand_hooks(cfg, &hooks)
				.into_iter()
				.filter(|h| h.types.iter().any(|t| t == pre_t))
				.collect();
			while take < rest.len() && take < n_want {
				let inv = &cx.invs[rest[take]];
				take += 1;
				if wanted
					.get(take - 1)
					.map(|h| hard_fail(h, inv.code))
					.unwrap_or(false)
				{
					break;
				}
			}
			if take == 0 && !rest.is_empty() {
				take = rest.len();
			}
			let (this, next) = rest.split_at(take);
			let is_last = next.is_empty();
			cx.batch(rep, kind, &hooks, pre_t, this, &env, true);
			if is_last {
				break;
			}
			rest = next;
		}
		// variables of file hooks
		for k in pre.iter() {
			let a = &cx.invs[*k].argv;
			let p = std::path::Path::new(path);
			let dir = p
				.parent()
				.map(|d| d.to_string_lossy().to_string())
				.unwrap_or_default();
			let fname = p
				.file_name()
				.map(|d| d.to_string_lossy().to_string())
				.unwrap_or_default();
			if hook_arg(a, "f_file_name") != Some(fname.as_str())
				|| hook_arg(a, "file_directory") != Some(dir.as_str())
			{
				rep.add(Violation::new(
					"C10",
					"file_hook_variables",
					"",
					kind,
					format!("{:?}", a),
				));
			}
		}
		if let Some(ws) = write_seq {
			// the post batch lies between the completed write and whatever comes next for this path;
			// it is complete unless the run was cut while it ran
			let post = with_path(&cx, ws, next_open);
			// a later pre batch for the same path would also carry this file_path: split at the
			// first hook of a pre type that follows a full post batch -- done by anchoring the next
			// open's pre batch AFTER the last post hook
			let wanted_post: Vec<&HookCfg> = expect::expand_hooks(cfg, &hooks)
				.into_iter()
				.filter(|h| h.types.iter().any(|t| t == post_t))
				.collect();
			let want_post = wanted_post.len();
			let mut n = 0;
			while n < post.len() && n < want_post {
				n += 1;
				if hard_fail(wanted_post[n - 1], cx.invs[post[n - 1]].code) {
					break;
				}
			}
			let post: Vec<usize> = post.into_iter().take(n).collect();
			let cut = w
				.trace
				.iter()
				.any(|e| e.seq > ws && matches!(&e.ev, Ev::Stopped { .. }))
				&& post.len() < want_post;
			cx.batch(rep, kind, &hooks, post_t, &post, &env, !cut);
			let end = post
				.last()
				.map(|k| cx.invs[*k].exit_seq.unwrap_or(cx.invs[*k].seq))
				.unwrap_or(ws);
			last_anchor.insert(path.clone(), end);
		} else {
			last_anchor.insert(path.clone(), *open_seq);
		}
	}

	// trailing pre batches: attempts that died in their file-pre hooks after the last write of that
	// path (or without any write at all)
	let mut trailing: BTreeMap<String, Vec<usize>> = BTreeMap::new();
	for (k, i) in cx.invs.iter().enumerate() {
		if cx.used.contains(&k) {
			continue;
		}
		if let Some(p) = hook_arg(&i.argv, "file_path") {
			if !p.is_empty() {
				trailing
					.entry(p.to_string())
					.or_insert_with(Vec::new)
					.push(k);
			}
		}
	}
	for (path, list) in trailing.iter() {
		let sel = match sel_of(path) {
			Some(s) => s,
			None => continue,
		};
		let kind = sel.split(':').next().unwrap_or("");
		let (hooks, env): (Vec<String>, BTreeMap<String, String>) = if kind == "account" {
			match cfg.accounts.iter().find(|a| a.name == sel[8..]) {
				Some(a) => (a.hooks.clone(), layered(&[proc_env, &a.env])),
				None => continue,
			}
		} else {
			let i: usize = sel
				.split(':')
				.nth(1)
				.and_then(|x| x.parse().ok())
				.unwrap_or(0);
			let c = &cfg.certificates[i];
			(
				c.hooks.clone(),
				layered(&[proc_env, &cfg.global.env, &c.env]),
			)
		};
		let existed = opens.iter().any(|o| &o.2 == path)
			|| w.plan.world.pre_files.iter().any(|f| {
				toml_emit::path_of(&w.plan, &w.scratch, &f.target).as_deref() == Some(path.as_str())
			});
		let pre_t = if existed {
			"file-pre-edit"
		} else {
			"file-pre-create"
		};
		let wanted: Vec<&HookCfg> = expect::expand_hooks(cfg, &hooks)
			.into_iter()
			.filter(|h| h.types.iter().any(|t| t == pre_t))
			.collect();
		let mut rest: &[usize] = list;
		while !rest.is_empty() {
			let mut take = 0;
			let mut failed = false;
			while take < rest.len() && take < wanted.len() {
				take += 1;
				if hard_fail(wanted[take - 1], cx.invs[rest[take - 1]].code) {
					failed = true;
					break;
				}
			}
			if take == 0 {
				take = rest.len();
			}
			let (this, next) = rest.split_at(take);
			// a trailing batch (no open of that path follows) is legitimate if it ended in a hard
			// failure, or if the run was cut before the daemon could open the file: the open follows
			// the last pre hook within the storage latency, so "cut" = the daemon ran for less than a
			// virtual second after that hook's exit
			let last = this.last().map(|k| &cx.invs[*k]);
			let cut = match last.and_then(|i| i.exit_seq) {
				None => true,
				Some(x) => {
					let t_exit = w
						.trace
						.iter()
						.find(|e| e.seq == x)
						.map(|e| e.t)
						.unwrap_or(0);
					let t_stop = w
						.trace
						.iter()
						.find(|e| e.seq > x && matches!(&e.ev, Ev::Stopped { .. }))
						.map(|e| e.t)
						.unwrap_or(w.mono);
					t_stop.saturating_sub(t_exit) < 1_000_000_000
				}
			};
			cx.batch(rep, kind, &hooks, pre_t, this, &env, false);
			if !failed && !cut && take == wanted.len() {
				rep.add(Violation::new(
					"C10",
					"file_pre_hooks_without_write",
					pre_t,
					kind,
					format!("{}", path.rsplit('/').next().unwrap_or("")),
				));
			}
			rest = next;
		}
	}

	// ---- B. challenge and clean batches, anchored on the CA's authorization records ----
	let sendseq = common::tx_send_seq(w);
	let reply_seq = |tx: u64| -> Option<u64> {
		w.trace
			.iter()
			.find(|e| matches!(&e.ev, Ev::NetReply { tx: t, .. } if *t == tx))
			.map(|e| e.seq)
	};
	for ca in w.cas.iter() {
		for az in ca.authzs.iter() {
			let o = &ca.orders[az.order];
			let cidx = match o.cert {
				Some(c) => c,
				None => continue,
			};
			let cert = &cfg.certificates[cidx];
			if az.initial_status != "pending" {
				continue;
			}
			let fetch_tx = match az.fetch_txs.first() {
				Some(f) => f.0,
				None => continue,
			};
			let fetch_seq = match reply_seq(fetch_tx) {
				Some(s) => s,
				None => continue,
			};
			let wire = if az.wildcard {
				format!("*.{}", az.value)
			} else {
				az.value.clone()
			};
			let ident = match cert
				.identifiers
				.iter()
				.find(|i| expect::ident_wire(i).1 == wire)
			{
				Some(i) => i,
				None => continue,
			};
			let typ = ident.challenge.clone();
			if !az.challs.iter().any(|c| ca.challs[*c].typ == typ) {
				continue;
			}
			let env = layered(&[proc_env, &cfg.global.env, &cert.env, &ident.env]);
			// end of this authorization's handling: the fetch of the next authorization of the order,
			// or the first order poll
			let later: Vec<u64> = ca
				.posts
				.iter()
				.filter(|p| {
					p.order == Some(o.id)
						&& p.tx > fetch_tx && (p.class == "authz"
						|| p.class.starts_with("orderPoll")
						|| p.class == "newOrder")
				})
				.filter_map(|p| sendseq.get(&p.tx).copied())
				.collect();
			let end_seq = later.into_iter().min().unwrap_or_else(|| {
				// the attempt may have ended here
				let my_id = toml_emit::cert_id(cert);
				w.trace
					.iter()
					.find(|e| {
						e.seq > fetch_seq
							&& match &e.ev {
								Ev::AttemptEnd { cert: c, .. } => c == &my_id,
								Ev::Stopped { .. } => true,
								_ => false,
							}
					})
					.map(|e| e.seq)
					.unwrap_or(u64::MAX)
			});
			let belongs =
				|i: &Inv| {
					let id = hook_arg(&i.argv, "identifier").unwrap_or("");
					i.seq > fetch_seq
						&& i.seq < end_seq && hook_arg(&i.argv, "challenge")
						.map(|c| !c.is_empty())
						.unwrap_or(false) && (id == az.value || id == format!("*.{}", az.value))
				};
			let solve: Vec<usize> = cx
				.invs
				.iter()
				.enumerate()
				.filter(|(_, i)| belongs(i) && hook_arg(&i.argv, "is_clean_hook") == Some("false"))
				.map(|(k, _)| k)
				.collect();
			let clean: Vec<usize> = cx
				.invs
				.iter()
				.enumerate()
				.filter(|(_, i)| belongs(i) && hook_arg(&i.argv, "is_clean_hook") == Some("true"))
				.map(|(k, _)| k)
				.collect();
			let cut = w.trace.iter().any(|e| {
				e.seq > fetch_seq && e.seq <= end_seq && matches!(&e.ev, Ev::Stopped { .. })
			});
			let failed = cx.batch(
				rep,
				"challenge",
				&cert.hooks,
				&format!("challenge-{}", typ),
				&solve,
				&env,
				!cut,
			);
			if failed {
				continue;
			}
			// validated? (a poll of this authorization returned valid)
			let validated = az.fetch_txs.iter().skip(1).any(|(_, st)| st == "valid");
			if validated {
				rep.probe("c10.validated_challenges", 1);
				let cut2 = cut
					|| w.trace.iter().any(|e| {
						e.seq > fetch_seq
							&& e.seq < end_seq.saturating_add(1)
							&& matches!(&e.ev, Ev::Stopped { .. })
					});
				cx.batch(
					rep,
					"clean",
					&cert.hooks,
					&format!("challenge-{}-clean", typ),
					&clean,
					&env,
					!cut2,
				);
				// identical variables except is_clean_hook
				if let (Some(s), true) = (solve.first(), !clean.is_empty()) {
					for c in clean.iter() {
						for key in [
							"identifier",
							"identifier_tls_alpn",
							"challenge",
							"file_name",
							"proof",
							"raw_proof",
						]
						.iter()
						{
							if hook_arg(&cx.invs[*c].argv, key) != hook_arg(&cx.invs[*s].argv, key)
							{
								rep.add(Violation::new(
									"C10",
									"clean_hook_variables_differ",
									key,
									"clean",
									format!(
										"{:?} vs {:?}",
										hook_arg(&cx.invs[*c].argv, key),
										hook_arg(&cx.invs[*s].argv, key)
									),
								));
							}
						}
					}
				}
			} else if !clean.is_empty() {
				rep.add(Violation::new(
					"C10",
					"clean_hook_without_validation",
					"",
					"clean",
					String::new(),
				));
			}
		}
	}

	// ---- C. post-operation batches, anchored on the attempt markers ----
	let atts = common::attempts(w);
	for a in atts.iter() {
		let end = match a.end {
			Some(e) => e,
			None => continue,
		};
		let cidx = match cfg
			.certificates
			.iter()
			.position(|c| toml_emit::cert_id(c) == a.cert)
		{
			Some(i) => i,
			None => continue,
		};
		let cert = &cfg.certificates[cidx];
		let ids = expect::cert_wire_idents(cert)
			.iter()
			.map(|(_, v)| v.clone())
			.collect::<Vec<_>>()
			.join(",");
		let post: Vec<usize> =
			cx.invs
				.iter()
				.enumerate()
				.filter(|(_, i)| {
					i.seq > a.begin.seq
						&& i.seq < end.seq && hook_arg(&i.argv, "is_success")
						.map(|s| !s.is_empty())
						.unwrap_or(false) && hook_arg(&i.argv, "identifiers") == Some(ids.as_str())
				})
				.map(|(k, _)| k)
				.collect();
		let env = layered(&[proc_env, &cfg.global.env, &cert.env]);
		cx.batch(
			rep,
			"post-operation",
			&cert.hooks,
			"post-operation",
			&post,
			&env,
			true,
		);
		for k in post.iter() {
			let av = &cx.invs[*k].argv;
			let kt = toml_emit::cert_key_type(cert);
			let crt = toml_emit::path_of(&w.plan, &w.scratch, &format!("crt:{}", cidx))
				.unwrap_or_default();
			let pk = toml_emit::path_of(&w.plan, &w.scratch, &format!("pk:{}", cidx))
				.unwrap_or_default();
			let ok = hook_arg(av, "key_type") == Some(kt.as_str())
				&& hook_arg(av, "certificate_path") == Some(crt.as_str())
				&& hook_arg(av, "private_key_path") == Some(pk.as_str())
				&& hook_arg(av, "is_success")
					== Some(if a.ok == Some(true) { "true" } else { "false" })
				// `status`: "success", or the error text of the failed step (its wording is C07's matter)
				&& match a.ok {
					Some(true) => hook_arg(av, "status") == Some("success"),
					_ => hook_arg(av, "status").map(|s| !s.is_empty() && s != "success").unwrap_or(false),
				};
			if !ok {
				rep.add(Violation::new(
					"C10",
					"post_operation_variables",
					"",
					"post-operation",
					format!("{:?}", av),
				));
			}
		}
	}
	// ---- G. nothing else ran ----
	let cut_any = r.outcomes.iter().any(|o| o.contains("CrashPoint"));
	if !cut_any {
		// attempts still open when the run ended were cut at an arbitrary point: their hooks may
		// lack the anchor that would place them in a batch
		let open_from: Vec<u64> = atts
			.iter()
			.filter(|a| a.end.is_none())
			.map(|a| a.begin.seq)
			.collect();
		for (k, i) in cx.invs.iter().enumerate() {
			if i.exit_seq.is_none() || open_from.iter().any(|b| i.seq > *b) {
				continue;
			}
			if !cx.used.contains(&k) {
				rep.add(Violation::new(
					"C10",
					"unexpected_hook_invocation",
					"",
					"",
					format!("{} {:?}", i.name, i.argv.iter().take(4).collect::<Vec<_>>()),
				));
			}
		}
	}
}
