use super::super::world::{Ev, Event, World};

/// normalise a panic message to a stable site identifier
pub fn panic_site(msg: &str) -> String {
	let m: String = msg.chars().map(|c| if c.is_ascii_digit() { '#' } else { c }).take(80).collect();
	m
}

pub struct Attempt<'a> {
	pub cert: String,
	pub begin: &'a Event,
	pub end: Option<&'a Event>,
	pub ok: Option<bool>,
	pub boot: u32,
}

/// Attempts in trace order (begin marker to end marker of the same certificate, within one boot).
pub fn attempts(w: &World) -> Vec<Attempt<'_>> {
	let mut out: Vec<Attempt> = vec![];
	let mut boot = 0;
	for e in w.trace.iter() {
		match &e.ev {
			Ev::Boot { n } => boot = *n,
			Ev::AttemptBegin { cert, .. } => out.push(Attempt {
				cert: cert.clone(),
				begin: e,
				end: None,
				ok: None,
				boot,
			}),
			Ev::AttemptEnd { cert, ok, .. } => {
				if let Some(a) = out.iter_mut().rev().find(|a| &a.cert == cert && a.end.is_none() && a.boot == boot) {
					a.end = Some(e);
					a.ok = Some(*ok);
				}
			}
			_ => {}
		}
	}
	out
}
