use super::super::world::{Ev, Event, World};

/// normalise a panic message to a stable site identifier
pub fn panic_site(msg: &str) -> String {
	let m: String = msg
		.chars()
		.map(|c| if c.is_ascii_digit() { '#' } else { c })
		.take(80)
		.collect();
	m
}

pub struct Attempt<'a> {
	pub cert: String,
	pub begin: &'a Event,
	pub end: Option<&'a Event>,
	pub ok: Option<bool>,
	pub boot: u32,
}

/// Attempts in trace order (begin marker to end marker of the same certificate, within one boot).
pub fn attempts(w: &World) -> Vec<Attempt<'_>> {
	let mut out: Vec<Attempt> = vec![];
	let mut boot = 0;
	for e in w.trace.iter() {
		match &e.ev {
			Ev::Boot { n } => boot = *n,
			Ev::AttemptBegin { cert, .. } => out.push(Attempt {
				cert: cert.clone(),
				begin: e,
				end: None,
				ok: None,
				boot,
			}),
			Ev::AttemptEnd { cert, ok, .. } => {
				if let Some(a) = out
					.iter_mut()
					.rev()
					.find(|a| &a.cert == cert && a.end.is_none() && a.boot == boot)
				{
					a.end = Some(e);
					a.ok = Some(*ok);
				}
			}
			_ => {}
		}
	}
	out
}

use std::collections::BTreeMap;

/// tx id -> event seq of its NetSend
pub fn tx_send_seq(w: &World) -> BTreeMap<u64, u64> {
	let mut m = BTreeMap::new();
	for e in w.trace.iter() {
		if let Ev::NetSend { tx, .. } = &e.ev {
			m.insert(*tx, e.seq);
		}
	}
	m
}

/// index (into `attempts`) of the attempt that was active for `cert` at event `seq`
pub fn attempt_at<'a>(atts: &'a [Attempt<'a>], seq: u64, cert: Option<&str>) -> Option<usize> {
	atts.iter().position(|a| {
		a.begin.seq <= seq
			&& a.end.map(|e| e.seq >= seq).unwrap_or(true)
			&& cert.map(|c| c == a.cert).unwrap_or(true)
	})
}

pub const RECOVERABLE: [&str; 7] = [
	"badNonce",
	"connection",
	"dns",
	"malformed",
	"rateLimited",
	"serverInternal",
	"tls",
];

pub const ACME_TYPES: [&str; 24] = [
	"accountDoesNotExist",
	"alreadyRevoked",
	"badCSR",
	"badNonce",
	"badPublicKey",
	"badRevocationReason",
	"badSignatureAlgorithm",
	"caa",
	"compound",
	"connection",
	"dns",
	"externalAccountRequired",
	"incorrectResponse",
	"invalidContact",
	"malformed",
	"orderNotReady",
	"rateLimited",
	"rejectedIdentifier",
	"serverInternal",
	"tls",
	"unauthorized",
	"unsupportedContact",
	"unsupportedIdentifier",
	"userActionRequired",
];

/// class of the last request delivered (or cut) during the attempt, i.e. where it failed/ended
pub fn last_class_in<'a>(w: &'a World, a: &Attempt<'a>) -> String {
	let end = a.end.map(|e| e.seq).unwrap_or(u64::MAX);
	let mut last = String::new();
	let mut open_tx: Option<u64> = None;
	for e in w.trace.iter() {
		if e.seq <= a.begin.seq {
			continue;
		}
		if e.seq >= end {
			break;
		}
		match &e.ev {
			Ev::NetSend { tx, .. } => open_tx = Some(*tx),
			Ev::NetDeliver { tx, class, .. } => {
				if Some(*tx) == open_tx || open_tx.is_none() {
					last = class.clone();
				}
			}
			_ => {}
		}
	}
	last
}

/// Does the plan inject only network/CA faults (C03's scope)?
pub fn only_net_faults(w: &World) -> bool {
	w.plan.faults.iter().all(|f| f.site == "net")
		&& w.plan
			.config
			.hooks
			.iter()
			.all(|h| h.exits.iter().all(|c| *c == 0))
}

pub fn hook_arg<'a>(argv: &'a [String], key: &str) -> Option<&'a str> {
	let p = format!("{}=", key);
	argv.iter()
		.find(|a| a.starts_with(&p))
		.map(|a| &a[p.len()..])
}
