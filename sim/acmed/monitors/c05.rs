// C05 -- each authorization is solved with the configured challenge and the right proof.
// Oracle: the CA's own RFC 8555 section 8 / RFC 8737 computation from the registered JWK and the
// token it issued, against what the hook process received; order of hook exit vs challenge POST.
use super::super::expect;
use super::super::run::RunResult;
use super::super::util::{b64u, hex, sha256};
use super::super::world::{Ev, Event, HookRec};
use super::common::{self, hook_arg};
use super::{Report, Violation};
use std::rc::Rc;

struct HookInv<'a> {
	spawn: &'a Event,
	rec: Rc<HookRec>,
	exit_seq: Option<u64>,
	code: Option<Option<i32>>,
}

fn hook_invocations(w: &super::super::world::World) -> Vec<HookInv<'_>> {
	let mut v: Vec<HookInv> = vec![];
	let mut by_id = std::collections::BTreeMap::new();
	for e in w.trace.iter() {
		match &e.ev {
			Ev::HookSpawn { id, rec } => {
				by_id.insert(*id, v.len());
				v.push(HookInv {
					spawn: e,
					rec: rec.clone(),
					exit_seq: None,
					code: None,
				});
			}
			Ev::HookExit { id, code } => {
				if let Some(i) = by_id.get(id) {
					v[*i].exit_seq = Some(e.seq);
					v[*i].code = Some(*code);
				}
			}
			_ => {}
		}
	}
	v
}

pub fn check(r: &RunResult, rep: &mut Report) {
	let w = &r.world;
	if r.panic.is_some() || !w.plan.faults.is_empty() {
		return;
	}
	let invs = hook_invocations(w);
	let sendseq = common::tx_send_seq(w);
	let reply_seq = |tx: u64| -> Option<u64> {
		w.trace
			.iter()
			.find(|e| matches!(&e.ev, Ev::NetReply { tx: t, .. } if *t == tx))
			.map(|e| e.seq)
	};
	for ca in w.cas.iter() {
		for az in ca.authzs.iter() {
			let o = &ca.orders[az.order];
			let cidx = match o.cert {
				Some(c) => c,
				None => continue, // C01's subject
			};
			let cert = &w.plan.config.certificates[cidx];
			let fetch_tx = match az.fetch_txs.first() {
				Some(f) => f.0,
				None => continue,
			};
			let fetch_seq = match reply_seq(fetch_tx) {
				Some(s) => s,
				None => continue,
			};
			// the next request of this order after the fetch
			let mut end_seq = ca
				.posts
				.iter()
				.filter(|p| p.order == Some(o.id) && p.tx > fetch_tx)
				.filter_map(|p| sendseq.get(&p.tx))
				.min()
				.copied()
				.unwrap_or(u64::MAX);
			// ... bounded by the end of that daemon run and by the certificate's next order (an attempt
			// cut by a stop leaves no later request of this order; later orders re-use the identifier)
			if let Some(s) = w
				.trace
				.iter()
				.find(|e| e.seq > fetch_seq && matches!(&e.ev, Ev::Stopped { .. }))
				.map(|e| e.seq)
			{
				end_seq = end_seq.min(s);
			}
			if let Some(s) = ca
				.orders
				.iter()
				.filter(|x| x.cert == o.cert && x.id > o.id)
				.filter_map(|x| sendseq.get(&x.created_tx))
				.min()
			{
				end_seq = end_seq.min(*s);
			}
			// the configured identifier this authorization is for
			let wire = if az.wildcard {
				format!("*.{}", az.value)
			} else {
				az.value.clone()
			};
			let cfg = cert
				.identifiers
				.iter()
				.find(|i| expect::ident_wire(i).1 == wire);
			let cfg = match cfg {
				Some(c) => c,
				None => continue,
			};
			rep.nontrivial = true;
			let mine: Vec<&HookInv> = invs
				.iter()
				.filter(|h| h.spawn.seq > fetch_seq && h.spawn.seq < end_seq)
				.filter(|h| {
					hook_arg(&h.rec.argv, "challenge")
						.map(|c| !c.is_empty())
						.unwrap_or(false)
				})
				.filter(|h| hook_arg(&h.rec.argv, "is_clean_hook") == Some("false"))
				.filter(|h| {
					let id = hook_arg(&h.rec.argv, "identifier").unwrap_or("");
					id == az.value || id == format!("*.{}", az.value)
				})
				.collect();
			let phase = if az.wildcard {
				"wildcard"
			} else if az.id_type == "ip" {
				"ip"
			} else {
				"dns"
			};
			if az.initial_status == "valid" {
				rep.probe("c05.authz_already_valid", 1);
				if !mine.is_empty() {
					rep.add(Violation::new(
						"C05",
						"challenge_hook_for_valid_authorization",
						"",
						phase,
						format!("{} hook(s) ran for {}", mine.len(), wire),
					));
				}
				continue;
			}
			if az.initial_status != "pending" {
				continue;
			}
			let want_type = cfg.challenge.clone();
			rep.probe(&format!("c05.authz.{}.{}", phase, want_type), 1);
			// challenges of this authorization
			let challs: Vec<_> = az.challs.iter().map(|c| &ca.challs[*c]).collect();
			let offered = challs.iter().find(|c| c.typ == want_type);
			// hooks of another type, or a POST to a challenge of another type
			for h in mine.iter() {
				let t = hook_arg(&h.rec.argv, "challenge").unwrap_or("");
				if t != want_type {
					let sibling = cert.identifiers.iter().any(|i| {
						let wv = expect::ident_wire(i).1;
						wv != wire && wv.trim_start_matches("*.") == az.value
					});
					rep.add(Violation::new("C05", "wrong_challenge_type", if sibling { "name_and_wildcard_confused" } else { "other" }, phase, format!("authorization for {} must be solved with {} (configured), hooks ran for {}", wire, want_type, t)));
				}
			}
			for c in challs.iter() {
				if c.typ != want_type && !c.posted.is_empty() {
					let sibling = cert.identifiers.iter().any(|i| {
						let wv = expect::ident_wire(i).1;
						wv != wire && wv.trim_start_matches("*.") == az.value
					});
					rep.add(Violation::new("C05", "wrong_challenge_answered", if sibling { "name_and_wildcard_confused" } else { "other" }, phase, format!("authorization for {}: configured {}, the daemon answered the {} challenge", wire, want_type, c.typ)));
				}
			}
			let ch = match offered {
				Some(c) => c,
				None => {
					rep.probe("c05.configured_type_not_offered", 1);
					continue;
				}
			};
			// expected hooks: the certificate's hooks of that type, declaration order
			let hooks = expect::expand_hooks(&w.plan.config, &cert.hooks);
			let tname = format!("challenge-{}", want_type);
			let want_hooks: Vec<&str> = hooks
				.iter()
				.filter(|h| h.types.iter().any(|t| t == &tname))
				.map(|h| h.name.as_str())
				.collect();
			let same_type: Vec<&&HookInv> = mine
				.iter()
				.filter(|h| hook_arg(&h.rec.argv, "challenge") == Some(want_type.as_str()))
				.collect();
			let got_hooks: Vec<&str> = same_type
				.iter()
				.map(|h| hook_arg(&h.rec.argv, "hook").unwrap_or(""))
				.collect();
			// A pending authorization offering the configured type is worked on whatever status the CA
			// shows for the individual challenge: going on to the next request of the order (the poll)
			// without any hook and without a response is not solving it.
			if !want_hooks.is_empty() && mine.is_empty() && ch.posted.is_empty() {
				let went_on = ca.posts.iter().any(|p| p.order == Some(o.id) && p.tx > fetch_tx);
				if went_on {
					rep.add(Violation::new(
						"C05",
						"pending_authorization_not_worked_on",
						&want_type,
						phase,
						format!("authorization for {} fetched as pending (challenge {} shown as {:?}): no challenge hook ran, no response was sent, the daemon went on", wire, want_type, ch.status),
					));
				}
			}
			let all_ok = same_type.iter().all(|h| h.code == Some(Some(0)));
			if all_ok && got_hooks != want_hooks && !ch.posted.is_empty() {
				rep.add(Violation::new(
					"C05",
					"challenge_hooks_not_the_configured_ones",
					"",
					phase,
					format!("expected {:?}, ran {:?}", want_hooks, got_hooks),
				));
			}
			// the values handed to the hooks
			let acct = &ca.accounts[o.account];
			// the key on record when the hooks ran (roll-overs may follow later)
			let thumb = acct
				.key_history
				.iter()
				.filter(|(tx, _)| sendseq.get(tx).map(|s| *s < fetch_seq).unwrap_or(true))
				.last()
				.map(|x| x.1.clone())
				.unwrap_or_else(|| acct.key.thumb.clone());
			let key_auth = format!("{}.{}", ch.token, thumb);
			let digest = sha256(key_auth.as_bytes());
			let (want_file, want_proof, want_raw): (Option<String>, String, String) =
				match want_type.as_str() {
					"http-01" => (Some(ch.token.clone()), key_auth.clone(), String::new()),
					"dns-01" => (None, b64u(&digest), String::new()),
					_ => {
						let hexs: Vec<String> = digest.iter().map(|b| hex(&[*b])).collect();
						(
							None,
							format!("1.3.6.1.5.5.7.1.31=critical,DER:04:20:{}", hexs.join(":")),
							b64u(&digest),
						)
					}
				};
			let want_alpn = if az.id_type == "ip" {
				expect::reverse_dns(&az.value).unwrap_or_default()
			} else {
				String::new()
			};
			for h in same_type.iter() {
				rep.probe("c05.challenge_hook_invocations_checked", 1);
				let a = &h.rec.argv;
				let proof = hook_arg(a, "proof").unwrap_or("");
				if proof != want_proof {
					rep.add(Violation::new(
						"C05",
						"wrong_proof",
						&want_type,
						phase,
						format!("proof {:?}, expected {:?}", proof, want_proof),
					));
				}
				if let Some(f) = &want_file {
					if hook_arg(a, "file_name") != Some(f.as_str()) {
						rep.add(Violation::new(
							"C05",
							"wrong_file_name",
							&want_type,
							phase,
							format!("{:?} vs token {:?}", hook_arg(a, "file_name"), f),
						));
					}
				}
				if want_type == "tls-alpn-01" && hook_arg(a, "raw_proof") != Some(want_raw.as_str())
				{
					rep.add(Violation::new(
						"C05",
						"wrong_raw_proof",
						&want_type,
						phase,
						format!("{:?} vs {:?}", hook_arg(a, "raw_proof"), want_raw),
					));
				}
				if az.id_type == "ip" {
					rep.probe("c05.ip_reverse_name_checked", 1);
					if hook_arg(a, "identifier_tls_alpn") != Some(want_alpn.as_str()) {
						rep.add(Violation::new(
							"C05",
							"wrong_reverse_dns_name",
							&want_type,
							phase,
							format!(
								"{:?} vs {:?}",
								hook_arg(a, "identifier_tls_alpn"),
								want_alpn
							),
						));
					}
				}
			}
			// ready is told to the CA only after those hooks succeeded
			if let Some((_, post_seq)) = ch.posted.first() {
				rep.probe("c05.challenge_posts", 1);
				let post_send = ch
					.posted
					.first()
					.and_then(|(tx, _)| sendseq.get(tx))
					.copied()
					.unwrap_or(*post_seq);
				for h in same_type.iter() {
					match (h.exit_seq, h.code) {
						(Some(x), Some(code)) => {
							if x > post_send {
								rep.add(Violation::new(
									"C05",
									"ready_before_hook_finished",
									&want_type,
									phase,
									String::new(),
								));
							}
							let allowed = w
								.plan
								.config
								.hooks
								.iter()
								.find(|c| Some(c.name.as_str()) == hook_arg(&h.rec.argv, "hook"))
								.map(|c| c.allow_failure == Some(true))
								.unwrap_or(false);
							if code != Some(0) && !allowed {
								rep.add(Violation::new(
									"C05",
									"ready_after_failed_hook",
									&want_type,
									phase,
									format!("exit {:?}", code),
								));
							}
						}
						_ => rep.add(Violation::new(
							"C05",
							"ready_before_hook_finished",
							&want_type,
							phase,
							"hook still running".into(),
						)),
					}
				}
				if !want_hooks.is_empty() && same_type.is_empty() {
					rep.add(Violation::new(
						"C05",
						"ready_without_running_hooks",
						&want_type,
						phase,
						format!("configured hooks {:?}", want_hooks),
					));
				}
			}
		}
	}
}
