// C11 -- accounts are registered once, kept in step with the configuration, and durable.
use super::super::plan::{EditItem, Op};
use super::super::run::RunResult;
use super::super::snap::AccountSnap;
use super::super::toml_emit;
use super::super::world::{Ev, World};
use super::common;
use super::{Report, Violation};
use std::collections::BTreeMap;

/// the configuration of the (single) account as it was at every boot: (boot seq, contacts, eab kid)
fn config_at_boots(w: &World) -> Vec<(u64, Vec<String>, Option<String>, Option<String>)> {
	// replay the plan's Edit ops in trace order
	let mut contacts = w.plan_initial_account().0;
	let mut eab = w.plan_initial_account().1;
	let mut key_type = w.plan_initial_account().2;
	let mut out = vec![];
	for e in w.trace.iter() {
		match &e.ev {
			Ev::Op { what } => {
				if let Ok(Op::Edit { patch }) = serde_json::from_str::<Op>(what) {
					for it in patch {
						match it {
							EditItem::Contacts { contacts: c, .. } => contacts = c,
							EditItem::Eab { eab: x, .. } => eab = x.map(|e| e.identifier),
							EditItem::KeyType { key_type: k, .. } => key_type = Some(k),
							_ => {}
						}
					}
				}
			}
			Ev::Boot { .. } => out.push((e.seq, contacts.clone(), eab.clone(), key_type.clone())),
			_ => {}
		}
	}
	out
}

pub fn check(r: &RunResult, rep: &mut Report) {
	let w = &r.world;
	if r.panic.is_some() {
		return;
	}
	let cfg = &w.plan.config;
	if cfg.accounts.len() != 1 {
		return; // the histories of this property use one account on 1..3 endpoints
	}
	let acc_name = cfg.accounts[0].name.clone();
	let boots = config_at_boots(w);
	let cfg_at = |seq: u64| boots.iter().rev().find(|b| b.0 <= seq).cloned();
	let sendseq = common::tx_send_seq(w);
	let atts = common::attempts(w);
	let net_faults = w.plan.faults.iter().any(|f| f.site == "net");

	// ---- (4) a truncated or unreadable account file makes the daemon refuse to start ----
	let mut pending_trunc: Option<(String, u64)> = None; // (sha, len) after truncation
	let mut full_len: BTreeMap<String, u64> = BTreeMap::new();
	let mut boot_decided: Option<bool> = None;
	for e in w.trace.iter() {
		match &e.ev {
			Ev::FileNote {
				path,
				sha,
				len,
				when,
			} => {
				if when == "after_truncate" {
					pending_trunc = Some((sha.clone(), *len));
					boot_decided = None;
				} else if when == "after_stop" {
					if let Some((tsha, tlen)) = pending_trunc.take() {
						rep.nontrivial = true;
						rep.probe("c11.truncation_points", 1);
						let full = full_len.get(path).copied().unwrap_or(u64::MAX);
						if tlen < full {
							match boot_decided {
								Some(false) => {}
								Some(true) => rep.add(Violation::new(
									"C11",
									"started_with_truncated_account_file",
									"",
									"boot",
									format!(
										"account file cut to {} of {} bytes and the daemon started",
										tlen, full
									),
								)),
								None => {}
							}
							if sha != &tsha {
								rep.add(Violation::new(
									"C11",
									"truncated_account_file_replaced",
									"",
									"boot",
									format!(
										"file cut to {} bytes was rewritten ({} bytes now)",
										tlen, len
									),
								));
							}
						}
					} else {
						full_len.insert(path.clone(), *len);
					}
				} else if when == "before_boot" && pending_trunc.is_none() {
					full_len.insert(path.clone(), *len);
				}
			}
			Ev::BootOk { .. } => boot_decided = Some(true),
			Ev::BootErr { .. } => boot_decided = Some(false),
			_ => {}
		}
	}

	// ---- (3) everything needed survives a restart exactly ----
	let snaps: Vec<(u64, String, Option<AccountSnap>)> = w
		.account_snaps
		.iter()
		.map(|(s, t, v)| {
			(
				*s,
				t.clone(),
				v.iter().flatten().find(|a| a.name == acc_name).cloned(),
			)
		})
		.collect();
	for i in 0..snaps.len() {
		if !snaps[i].1.starts_with("stop:") {
			continue;
		}
		let pre = match &snaps[i].2 {
			Some(p) => p,
			None => continue,
		};
		// quiescent stop only: no attempt open at that moment
		let open = atts.iter().any(|a| {
			a.begin.seq < snaps[i].0
				&& a.end.map(|e| e.seq > snaps[i].0).unwrap_or(true)
				&& a.begin.seq > last_boot_before(w, snaps[i].0)
		});
		if open || snaps[i].1 == "stop:crash" {
			continue;
		}
		if let Some(post) = snaps
			.iter()
			.skip(i + 1)
			.find(|s| s.1 == "boot")
			.and_then(|s| s.2.clone())
		{
			rep.nontrivial = true;
			rep.probe("c11.restarts_compared", 1);
			let mut exp_past = pre.past_keys.clone();
			let key_rolled = post.current_key != pre.current_key;
			if key_rolled {
				exp_past.push(pre.current_key.clone());
			}
			if post.past_keys != exp_past {
				rep.add(Violation::new(
					"C11",
					"superseded_keys_not_durable",
					"",
					"restart",
					format!(
						"before {} past keys, after {}",
						pre.past_keys.len(),
						post.past_keys.len()
					),
				));
			}
			if !key_rolled
				&& (post.current_alg != pre.current_alg || post.current_type != pre.current_type)
			{
				rep.add(Violation::new(
					"C11",
					"current_key_not_durable",
					"",
					"restart",
					String::new(),
				));
			}
			let mut pre_eps = pre.endpoints.clone();
			let post_eps = post.endpoints.clone();
			// endpoints may be added by the new configuration; existing ones must be identical
			pre_eps.retain(|k, _| post_eps.contains_key(k));
			for (k, v) in pre_eps.iter() {
				if post_eps.get(k) != Some(v) {
					rep.add(Violation::new(
						"C11",
						"endpoint_state_not_durable",
						"",
						"restart",
						format!("endpoint {}: {:?} became {:?}", k, v, post_eps.get(k)),
					));
				}
			}
		}
	}

	// ---- (1) an account is created only when no URL is stored, the CA reported it unknown, or the binding changed ----
	for ca in w.cas.iter() {
		let ep_name = cfg
			.endpoints
			.iter()
			.find(|e| e.ca == ca.idx)
			.map(|e| e.name.clone())
			.unwrap_or_default();
		let mut last_ok: Option<(u64, Option<String>)> = None; // (tx, eab kid) of the last successful newAccount
		for na in ca.new_accounts.iter() {
			rep.nontrivial = true;
			rep.probe("c11.new_account_requests", 1);
			let seq = sendseq.get(&na.tx).copied().unwrap_or(0);
			// what the daemon had stored when it sent this: newest snapshot before the request
			let stored_url = snaps
				.iter()
				.rev()
				.find(|s| s.0 <= seq)
				.and_then(|s| s.2.as_ref())
				.and_then(|a| a.endpoints.get(&ep_name))
				.map(|e| e.0.clone())
				.unwrap_or_default();
			let no_url = stored_url.is_empty()
				&& last_ok
					.as_ref()
					.map(|l| {
						sendseq.get(&l.0).copied().unwrap_or(0)
							< snaps
								.iter()
								.rev()
								.find(|s| s.0 <= seq)
								.map(|s| s.0)
								.unwrap_or(0)
					})
					.unwrap_or(true);
			let first = last_ok.is_none();
			let adne = ca
				.does_not_exist
				.iter()
				.any(|(tx, _)| *tx < na.tx && last_ok.as_ref().map(|l| *tx > l.0).unwrap_or(true));
			let binding_changed = na.eab_kid.is_some()
				&& last_ok.as_ref().map(|l| l.1 != na.eab_kid).unwrap_or(false);
			let reason = if first || no_url {
				"no_url_stored"
			} else if adne {
				"ca_reported_unknown"
			} else if binding_changed {
				"binding_changed"
			} else {
				""
			};
			if reason.is_empty() && !net_faults {
				rep.add(Violation::new("C11", "account_created_without_reason", "", "newAccount", format!("newAccount tx {} on {}: a URL was stored ({}), the CA had not reported the account unknown and the binding had not changed", na.tx, ca.host, stored_url)));
			} else {
				rep.probe(&format!("c11.new_account.{}", reason), 1);
			}
			let ok = ca
				.posts
				.iter()
				.find(|p| p.tx == na.tx)
				.map(|p| p.reply_status < 300 && !p.lost)
				.unwrap_or(false);
			if ok {
				last_ok = Some((na.tx, na.eab_kid.clone()));
			}
		}
	}

	// ---- (2) after a renewal the CA's record is in line with the configuration ----
	for (ci, c) in cfg.certificates.iter().enumerate() {
		let id = toml_emit::cert_id(c);
		let ep = match cfg.endpoints.iter().find(|e| e.name == c.endpoint) {
			Some(e) => e,
			None => continue,
		};
		let ca = &w.cas[ep.ca];
		let mine: Vec<&common::Attempt> = atts.iter().filter(|a| a.cert == id).collect();
		for (k, a) in mine.iter().enumerate() {
			let end = match a.end {
				Some(e) => e,
				None => continue,
			};
			let (_, want_contacts, _, want_key_type) = match cfg_at(a.begin.seq) {
				Some(c) => c,
				None => continue,
			};
			let want_contacts: Vec<String> = want_contacts
				.iter()
				.map(|c| format!("mailto:{}", c))
				.collect();
			// account requests of this attempt on this CA
			let in_att = |tx: u64| {
				sendseq
					.get(&tx)
					.map(|s| *s > a.begin.seq && *s < end.seq)
					.unwrap_or(false)
			};
			let contact_updates = ca
				.accounts
				.iter()
				.map(|ac| {
					ac.contact_updates
						.iter()
						.filter(|(tx, _)| in_att(*tx))
						.count()
				})
				.sum::<usize>();
			let key_changes: Vec<_> = ca.key_changes.iter().filter(|kc| in_att(kc.tx)).collect();
			if contact_updates > 1 {
				rep.add(Violation::new(
					"C11",
					"more_than_one_update_per_item",
					"contacts",
					"account",
					format!("{} contact updates in one attempt", contact_updates),
				));
			}
			if key_changes.iter().filter(|k| k.ok).count() > 1 {
				rep.add(Violation::new(
					"C11",
					"more_than_one_update_per_item",
					"key",
					"keyChange",
					String::new(),
				));
			}
			if contact_updates > 0 {
				rep.probe("c11.contact_updates", 1);
			}
			if key_changes.iter().any(|k| k.ok) {
				rep.probe("c11.key_rollovers", 1);
			}
			if a.ok != Some(true) {
				continue;
			}
			rep.nontrivial = true;
			// the daemon's key at the end of the attempt
			let snap = w
				.account_snaps
				.iter()
				.find(|(s, t, _)| *s == end.seq && t.starts_with("attempt_end:"))
				.and_then(|(_, _, v)| v.iter().flatten().find(|x| x.name == acc_name).cloned());
			let snap = match snap {
				Some(s) => s,
				None => continue,
			};
			let url = snap
				.endpoints
				.get(&ep.name)
				.map(|e| e.0.clone())
				.unwrap_or_default();
			let rec = ca.accounts.iter().find(|ac| ca.acct_url(ac.id) == url);
			let rec = match rec {
				Some(r) => r,
				None => {
					rep.add(Violation::new(
						"C11",
						"stored_account_url_unknown_to_ca",
						"",
						"",
						url,
					));
					continue;
				}
			};
			rep.probe("c11.renewals_judged", 1);
			// the CA's record AS OF the end of this attempt
			let before = |tx: u64| sendseq.get(&tx).map(|s| *s < end.seq).unwrap_or(false);
			let ca_thumb = rec
				.key_history
				.iter()
				.filter(|(tx, _)| before(*tx))
				.last()
				.map(|x| x.1.clone())
				.unwrap_or_default();
			let ca_contacts = rec
				.contact_updates
				.iter()
				.filter(|(tx, _)| before(*tx))
				.last()
				.map(|x| x.1.clone())
				.unwrap_or_else(|| rec.created_contacts.clone());
			let ca_forgotten = rec
				.forgotten_at
				.map(|s| s < end.seq as u128)
				.unwrap_or(false);
			let mut diffs = vec![];
			if ca_thumb != snap.thumb {
				diffs.push("key");
			}
			// the key in use is of the configured type (an edit of the key type that generates no new
			// key leaves both sides in agreement with each other, and both out of line with the configuration)
			if let Some(kt) = &want_key_type {
				if &snap.current_type != kt {
					diffs.push("key_type_not_the_configured_one");
				}
			}
			if ca_contacts != want_contacts {
				// did this attempt "create" an account the CA already had (200, body = the account as
				// it existed before the request)?
				// ... in this attempt or in an earlier one since the CA last took contacts for this account
				let last_contact_tx = rec
					.contact_updates
					.iter()
					.map(|x| x.0)
					.filter(|tx| before(*tx))
					.max()
					.unwrap_or(rec.created_tx);
				let existing = ca.new_accounts.iter().any(|na| {
					before(na.tx)
						&& na.tx > last_contact_tx
						&& !na.created && na.account == Some(rec.id)
				});
				diffs.push(if existing {
					"contacts_after_newaccount_returned_existing_account"
				} else {
					"contacts"
				});
			}
			if ca_forgotten {
				diffs.push("account_forgotten_by_ca");
			}
			if !diffs.is_empty() {
				rep.add(Violation::new(
					"C11",
					"ca_record_not_in_line_after_renewal",
					&diffs.join("+"),
					&c.endpoint,
					format!(
						"CA holds key {} contacts {:?}; daemon key {} configured contacts {:?}",
						&ca_thumb[..8.min(ca_thumb.len())],
						ca_contacts,
						&snap.thumb[..8.min(snap.thumb.len())],
						want_contacts
					),
				));
			}
			let _ = (ci, k);
		}
		// convergence: the final renewal of each endpoint (three attempts allowed) must succeed
		// With network faults the same is demanded once they have stopped (two of the final attempts
		// began after the last injected fault), except after the one fault that legitimately leaves
		// the two sides apart for good: a key roll-over processed by the CA whose reply was lost.
		let last_net_fault = w
			.trace
			.iter()
			.filter(|e| matches!(&e.ev, Ev::NetDeliver { fault: Some(_), .. }))
			.map(|e| e.seq)
			.last()
			.unwrap_or(0);
		let rollover_reply_lost = w.trace.iter().any(|e| {
			matches!(&e.ev, Ev::NetDeliver { class, fault: Some(f), .. } if class == "keyChange" && f.contains("reset_after"))
		});
		if rollover_reply_lost {
			rep.probe("c11.convergence_not_judged.rollover_reply_lost", 1);
		}
		if !net_faults || !rollover_reply_lost {
			let last_run_only_this = matches!(
				w.plan
					.ops
					.iter()
					.rev()
					.find(|o| matches!(o, Op::Run { only, .. } if only == &vec![ci])),
				Some(_)
			);
			if last_run_only_this {
				let last_boot = atts.iter().map(|a| a.boot).max().unwrap_or(0);
				let final_boot_of_cert = mine.iter().map(|a| a.boot).max().unwrap_or(0);
				let _ = last_boot;
				let final_atts: Vec<&&common::Attempt> = mine
					.iter()
					.filter(|a| a.boot == final_boot_of_cert && a.ok.is_some()) // an attempt cut by the end of the run is not judged
					.collect();
				let after_faults = final_atts.iter().filter(|a| a.begin.seq > last_net_fault).count();
				if final_atts.len() >= 3 && final_atts.iter().all(|a| a.ok == Some(false)) && (!net_faults || after_faults >= 2) {
					// why? classify by what the configuration history asked for
					let mut pending = pending_changes(w);
					// a roll-over the CA processed, the daemon killed before it recorded it: the CA
					// holds the new key, the daemon keeps authorising the roll-over with the old one
					let rollover_lost_in_crash = ca.accounts.iter().flat_map(|ac| ac.key_history.iter()).any(|(tx, _)| {
						let d = w.trace.iter().find(|e| matches!(&e.ev, Ev::NetDeliver { tx: t, class, fault: None, .. } if t == tx && class == "keyChange"));
						match d {
							Some(d) => {
								let crash = w.trace.iter().find(|e| e.seq > d.seq && matches!(&e.ev, Ev::Stopped { why } if why == "crash"));
								match crash {
									Some(c) => !w.trace.iter().any(|e| e.seq > d.seq && e.seq < c.seq && matches!(&e.ev, Ev::FsClose { path, .. } if path.ends_with(".account.bin"))),
									None => false,
								}
							}
							None => false,
						}
					});
					if rollover_lost_in_crash {
						pending = "rollover_processed_by_ca_then_crash_before_it_was_recorded".into();
					}
					rep.add(Violation::new("C11", "never_converges", &pending, &c.endpoint, format!("{} consecutive failed attempts of {} after the history; last failing request class {}", final_atts.len(), id, common::last_class_in(w, final_atts.last().unwrap()))));
				}
			}
		}
	}
}

fn last_boot_before(w: &World, seq: u64) -> u64 {
	w.trace
		.iter()
		.filter(|e| e.seq < seq && matches!(&e.ev, Ev::Boot { .. }))
		.map(|e| e.seq)
		.last()
		.unwrap_or(0)
}

/// which kinds of edits did the history contain (for identifying a non-convergence)
fn pending_changes(w: &World) -> String {
	let mut contacts = false;
	let mut key = false;
	let mut eab = false;
	let mut forget = false;
	let mut same_edit_both = false;
	for op in w.plan.ops.iter() {
		match op {
			Op::Edit { patch } => {
				let c = patch.iter().any(|p| matches!(p, EditItem::Contacts { .. }));
				let k = patch.iter().any(|p| matches!(p, EditItem::KeyType { .. }));
				contacts |= c;
				key |= k;
				same_edit_both |= c && k;
				eab |= patch.iter().any(|p| matches!(p, EditItem::Eab { .. }));
			}
			Op::CaForget { .. } => forget = true,
			_ => {}
		}
	}
	let _ = same_edit_both;
	let mut v = vec![];
	if contacts {
		v.push("contacts");
	}
	if key {
		v.push("key");
	}
	if eab {
		v.push("eab");
	}
	if forget {
		v.push("forget");
	}
	v.join("+")
}
