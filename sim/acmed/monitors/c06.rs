// C06 -- renewal happens exactly when due: never late, never in a loop.
// Oracle on arrival times in VIRTUAL time (DESIGN.md 7/C06, 9.4).
use super::super::expect;
use super::super::run::RunResult;
use super::super::snap::PairSnap;
use super::super::toml_emit;
use super::super::world::{Ev, World};
use super::common;
use super::{Report, Violation};
use std::rc::Rc;

pub fn parse_period(s: &str) -> Option<u64> {
	// the documented grammar: one or more <digits><unit>, unit in s m h d w; value = sum of parts
	let mut total: u64 = 0;
	let mut num = String::new();
	let mut any = false;
	for c in s.chars() {
		if c.is_ascii_digit() {
			num.push(c);
		} else {
			let mult = match c {
				's' => 1,
				'm' => 60,
				'h' => 3600,
				'd' => 86400,
				'w' => 604800,
				_ => return None,
			};
			if num.is_empty() {
				return None;
			}
			total = total.checked_add(num.parse::<u64>().ok()?.checked_mul(mult)?)?;
			num.clear();
			any = true;
		}
	}
	if !num.is_empty() || !any {
		return None;
	}
	Some(total)
}

fn settings(w: &World, idx: usize) -> (u64, u64) {
	let c = &w.plan.config.certificates[idx];
	let g = &w.plan.config.global;
	let rd = c
		.renew_delay
		.as_ref()
		.or(g.renew_delay.as_ref())
		.and_then(|s| parse_period(s))
		.unwrap_or(30 * 86400);
	let rer = c
		.random_early_renew
		.as_ref()
		.or(g.random_early_renew.as_ref())
		.and_then(|s| parse_period(s))
		.unwrap_or(0);
	(rd, rer)
}

fn covers(w: &World, idx: usize, s: &PairSnap) -> bool {
	expect::cert_wire_idents(&w.plan.config.certificates[idx])
		.iter()
		.all(|(_, v)| s.sans.iter().any(|x| x == v))
}

struct Eval {
	t: u128,
	state: Rc<PairSnap>,
	/// the next attempt of this certificate in the same boot, if any: its begin time
	next: Option<u128>,
	/// end of observation for this evaluation (stop of that boot)
	until: u128,
}

pub fn check(r: &RunResult, rep: &mut Report) {
	let w = &r.world;
	if r.panic.is_some() || !w.plan.faults.is_empty() {
		return;
	}
	let n_certs = w.plan.config.certificates.len();
	let lat = (w.plan.sched.fs_us.1 as u128 * 6 + w.plan.sched.net_us.1 as u128 * 2) * 1000;
	// 2 s for ASN.1 second granularity; other certificates' blocking sleeps (5 s polls, 1 s retries)
	// delay each of the evaluation's three yield points (open, read, zero sleep) by at most one such
	// sleep (the sleeper yields at its next request)
	let eps: u128 = 2_000_000_000 + lat + if n_certs > 1 { 3 * 7_000_000_000 } else { 0 };
	let atts = common::attempts(w);
	for (idx, c) in w.plan.config.certificates.iter().enumerate() {
		let id = toml_emit::cert_id(c);
		let (rd, rer) = settings(w, idx);
		// evaluation instants: boot, and the end of every successful attempt
		let mut evals: Vec<Eval> = vec![];
		let mut boot = 0;
		let mut boot_end: std::collections::BTreeMap<u32, u128> = Default::default();
		for e in w.trace.iter() {
			match &e.ev {
				Ev::Boot { n } => boot = *n,
				Ev::Stopped { .. } => {
					boot_end.entry(boot).or_insert(e.t);
				}
				_ => {}
			}
		}
		boot = 0;
		let mut evals_boot: Vec<u32> = vec![];
		for e in w.trace.iter() {
			match &e.ev {
				Ev::Boot { n } => boot = *n,
				Ev::BootOk { pairs, .. } => {
					if let Some(p) = pairs.get(idx) {
						evals.push(Eval {
							t: e.t,
							state: p.clone(),
							next: None,
							until: 0,
						});
						evals_boot.push(boot);
					}
				}
				Ev::AttemptEnd {
					cert,
					ok: true,
					snap,
				} if cert == &id => {
					evals.push(Eval {
						t: e.t,
						state: snap.clone(),
						next: None,
						until: 0,
					});
					evals_boot.push(boot);
				}
				Ev::AttemptEnd {
					cert, ok: false, ..
				} if cert == &id => {
					// evaluations after failed attempts belong to C07(d): mark by an empty eval
					evals.push(Eval {
						t: u128::MAX,
						state: Rc::new(PairSnap::default()),
						next: None,
						until: 0,
					});
					evals_boot.push(boot);
				}
				_ => {}
			}
		}
		// attach next attempt begin
		for (k, ev) in evals.iter_mut().enumerate() {
			let b = evals_boot[k];
			ev.until = boot_end.get(&b).copied().unwrap_or(w.mono);
			if ev.t == u128::MAX {
				continue;
			}
			ev.next = atts
				.iter()
				.filter(|a| a.cert == id && a.boot == b && a.begin.t >= ev.t && a.begin.seq > 0)
				.map(|a| a.begin.t)
				.filter(|t| *t >= ev.t)
				.min();
		}
		for ev in evals.iter() {
			if ev.t == u128::MAX {
				continue;
			}
			rep.nontrivial = true;
			let s = &ev.state;
			let wall_eval =
				w.epoch0 as i128 + (ev.t / 1_000_000_000) as i128 + skew_at(w, ev.t) as i128;
			if s.crt_present && !s.crt_parses {
				// unreadable certificate file (e.g. the daemon was stopped in the middle of writing it):
				// the daemon's back-off path, which the statement does not speak about
				rep.probe("c06.eval.unreadable_certificate", 1);
				continue;
			}
			let must_now = !s.crt_present || !s.pk_present || !covers(w, idx, s);
			let (lo, hi): (u128, u128) = if must_now {
				rep.probe(
					if !s.crt_present || !s.pk_present {
						"c06.eval.file_missing"
					} else {
						"c06.eval.identifier_uncovered"
					},
					1,
				);
				(ev.t, ev.t)
			} else if !s.crt_parses {
				continue; // unreadable certificate: the back-off path, not in the statement
			} else {
				let due_hi_wall = s.not_after as i128 - rd as i128;
				let due_lo_wall = due_hi_wall - rer as i128;
				let to_t = |wall: i128| -> u128 {
					let d = wall - wall_eval;
					if d <= 0 {
						ev.t
					} else {
						ev.t + (d as u128) * 1_000_000_000
					}
				};
				if due_hi_wall <= wall_eval {
					rep.probe("c06.eval.already_due", 1);
				} else {
					rep.probe("c06.eval.wait", 1);
				}
				(to_t(due_lo_wall), to_t(due_hi_wall))
			};
			match ev.next {
				Some(t_req) => {
					if t_req > hi + eps {
						rep.add(Violation::new(
							"C06",
							"renewal_late",
							if must_now {
								"must_renew_now"
							} else {
								"due_date_passed"
							},
							"",
							format!(
								"attempt began {} s after the latest admissible instant",
								(t_req - hi) / 1_000_000_000
							),
						));
					}
					if t_req + eps < lo {
						rep.add(Violation::new("C06", "renewal_early", if lo - t_req > 3600_000_000_000 { "far" } else { "near" }, "", format!("attempt began {} s before the earliest admissible instant (lifetime left {} s, renew_delay {} s, random_early_renew {} s)", (lo - t_req) / 1_000_000_000, s.not_after as i128 - wall_eval, rd, rer)));
					}
					if lo > ev.t + eps {
						rep.probe("c06.waited_then_renewed", 1);
					}
				}
				None => {
					// nothing happened until the end of observation: it must not have been due
					if ev.until > hi + eps {
						rep.add(Violation::new(
							"C06",
							"renewal_never_started",
							if must_now {
								"must_renew_now"
							} else {
								"due_date_passed"
							},
							"",
							format!(
								"due at {} s, observed until {} s, no attempt",
								hi / 1_000_000_000,
								ev.until / 1_000_000_000
							),
						));
					}
				}
			}
		}
	}
}

/// wall-clock skew in force at virtual instant t (Skew ops are recorded as Op events)
fn skew_at(w: &World, t: u128) -> i64 {
	let mut skew = 0i64;
	for e in w.trace.iter() {
		if e.t > t {
			break;
		}
		if let Ev::Op { what } = &e.ev {
			if let Ok(v) = serde_json::from_str::<serde_json::Value>(what) {
				if v.get("op").and_then(|o| o.as_str()) == Some("skew") {
					skew += v.get("seconds").and_then(|s| s.as_i64()).unwrap_or(0);
				}
			}
		}
	}
	skew
}
