// C03 -- the installed certificate/key pair stays consistent across any attempt, whatever the CA
// or the network did.  Scope: network/CA faults only (the statement's words).
use super::super::run::RunResult;
use super::super::world::Ev;
use super::common;
use super::{Report, Violation};

pub fn check(r: &RunResult, rep: &mut Report) {
	let w = &r.world;
	if r.panic.is_some() || !common::only_net_faults(w) {
		return;
	}
	let atts = common::attempts(w);
	for a in atts.iter() {
		let (b, e) = match (&a.begin.ev, a.end.map(|e| &e.ev)) {
			(Ev::AttemptBegin { snap: b, .. }, Some(Ev::AttemptEnd { snap: e, .. })) => {
				(b.clone(), e.clone())
			}
			_ => continue,
		};
		rep.nontrivial = true;
		let phase = common::last_class_in(w, a);
		let cert_idx = e.cert_idx.unwrap_or(0);
		let kp = w
			.plan
			.config
			.certificates
			.get(cert_idx)
			.and_then(|c| c.kp_reuse)
			.unwrap_or(false);
		let kp_s = if kp { "kp_reuse" } else { "no_kp_reuse" };
		if a.ok == Some(false) {
			rep.probe("c03.failed_attempts", 1);
		}
		if b.matches {
			rep.probe("c03.attempts_with_preexisting_pair", 1);
		}
		// (1) if the certificate file is present it is a parseable chain matching the key file
		if e.crt_present {
			let bad = !e.crt_parses || !e.pk_present || !e.pk_parses || !e.matches;
			if bad {
				let changed_crt = e.crt_hash != b.crt_hash;
				let changed_pk = e.pk_hash != b.pk_hash;
				let cause = if !changed_crt && !changed_pk {
					// nothing was written by this attempt: a pre-existing state, not the daemon's doing
					"preexisting"
				} else if !e.crt_parses {
					"certificate_unparseable"
				} else if !changed_crt && changed_pk {
					"key_replaced_certificate_kept"
				} else if changed_crt && !e.matches {
					"certificate_for_other_key"
				} else {
					"other"
				};
				if cause != "preexisting" {
					rep.add(Violation::new(
						"C03",
						"pair_mismatch",
						cause,
						&phase,
						format!("{} attempt_ok={:?} crt_parses={} pk_parses={} matches={} crt_changed={} pk_changed={}", kp_s, a.ok, e.crt_parses, e.pk_parses, e.matches, changed_crt, changed_pk),
					));
				}
			}
		}
		// (2) a failure before a new certificate was obtained leaves a matching pair untouched
		if a.ok == Some(false) && b.matches {
			let downloaded = downloaded_in(w, a);
			if !downloaded && (e.crt_hash != b.crt_hash || e.pk_hash != b.pk_hash) {
				let what = if e.pk_hash != b.pk_hash {
					"key_replaced"
				} else {
					"certificate_replaced"
				};
				rep.add(Violation::new(
					"C03",
					"pair_touched_by_failed_attempt",
					what,
					&phase,
					format!(
						"{} the attempt failed at {} before any certificate was downloaded",
						kp_s, phase
					),
				));
			}
		}
	}
}

/// did a certificate download reply (2xx) reach the daemon during this attempt?
fn downloaded_in(w: &super::super::world::World, a: &common::Attempt) -> bool {
	let end = a.end.map(|e| e.seq).unwrap_or(u64::MAX);
	let mut cert_txs = std::collections::BTreeSet::new();
	for e in w.trace.iter() {
		if e.seq <= a.begin.seq || e.seq >= end {
			continue;
		}
		match &e.ev {
			Ev::NetDeliver { tx, class, .. } if class == "certificate" => {
				cert_txs.insert(*tx);
			}
			Ev::NetReply {
				tx, status, err, ..
			} => {
				if cert_txs.contains(tx) && err.is_none() && *status >= 200 && *status < 300 {
					return true;
				}
			}
			_ => {}
		}
	}
	false
}
