// C02 -- stored files hold exactly what was issued, with no residue of older content.
use super::super::run::RunResult;
use super::super::toml_emit;
use super::super::util::sha256_hex;
use super::super::world::Ev;
use super::common;
use super::{Report, Violation};

pub fn check(r: &RunResult, rep: &mut Report) {
	let w = &r.world;
	if r.panic.is_some() {
		return;
	}
	// (2) every completed write leaves exactly the new content, whatever the file held before
	let mut open_info: std::collections::BTreeMap<u64, (bool, String)> = Default::default();
	for e in w.trace.iter() {
		match &e.ev {
			Ev::FsOpen {
				id,
				path,
				write: true,
				existed,
				..
			} => {
				open_info.insert(*id, (*existed, path.clone()));
			}
			Ev::FsClose {
				id,
				path,
				written,
				disk_len,
				exact,
				..
			} => {
				let existed = open_info.get(id).map(|x| x.0).unwrap_or(false);
				let sel = super::super::fs::selector(w, std::path::Path::new(path));
				let ftype = sel.split(':').next().unwrap_or("other").to_string();
				if existed {
					rep.probe(&format!("c02.rewrites.{}", ftype), 1);
					rep.nontrivial = true;
				}
				if disk_len > written {
					rep.probe("c02.shorter_over_longer", 1);
				}
				if !exact {
					let cause = if disk_len > written {
						"residue_of_longer_old_content"
					} else {
						"content_differs"
					};
					rep.add(Violation::new(
						"C02",
						"write_left_other_content",
						cause,
						&ftype,
						format!(
							"{} bytes written to {} but the file holds {} bytes",
							written, sel, disk_len
						),
					));
				}
			}
			_ => {}
		}
	}
	// (1) after every attempt reported successful the certificate file is byte-for-byte what the CA
	// returned for that attempt's order and the key file is the CSR's key
	if !w.plan.faults.is_empty() {
		return;
	}
	let atts = common::attempts(w);
	for a in atts.iter() {
		if a.ok != Some(true) {
			continue;
		}
		let end = a.end.unwrap();
		let snap = match &end.ev {
			Ev::AttemptEnd { snap, .. } => snap.clone(),
			_ => continue,
		};
		let idx = match w
			.plan
			.config
			.certificates
			.iter()
			.position(|c| toml_emit::cert_id(c) == a.cert)
		{
			Some(i) => i,
			None => continue,
		};
		// the order of this attempt: the last order of this certificate created inside the attempt
		// Certificates that differ only by their key type ("twins") place identical orders: there the
		// order is told apart by the type of the key it was finalized with.
		let certs = &w.plan.config.certificates;
		let idents_of = |c: usize| super::super::expect::cert_wire_idents(&certs[c]);
		let twins: Vec<usize> = (0..certs.len()).filter(|c| idents_of(*c) == idents_of(idx)).collect();
		let my_kt = certs[idx].key_type.clone().unwrap_or_else(|| "rsa2048".into());
		let mut found = None;
		for ca in w.cas.iter() {
			for o in ca.orders.iter() {
				let mine = if twins.len() > 1 {
					o.cert.map(|c| twins.contains(&c)).unwrap_or(false)
						&& o.issued.map(|i| super::c01::key_type_of_spki(&ca.issued[i].leaf_pubkey_der) == my_kt).unwrap_or(false)
				} else {
					o.cert == Some(idx)
				};
				if mine && o.created_t >= a.begin.t && o.created_t <= end.t {
					if let Some(i) = o.issued {
						found = Some((
							ca.issued[i].pem.clone(),
							ca.issued[i].leaf_pubkey_der.clone(),
						));
					}
				}
			}
		}
		let (pem, csr_pub) = match found {
			Some(f) => f,
			None => continue, // identifier mapping failed (C01's subject) or nothing issued (C07's)
		};
		rep.nontrivial = true;
		rep.probe("c02.successful_attempts_compared", 1);
		if sha256_hex(pem.as_bytes()) != snap.crt_hash {
			let cause = if snap.crt_len > pem.len() {
				"residue_of_longer_old_content"
			} else {
				"content_differs"
			};
			rep.add(Violation::new(
				"C02",
				"certificate_file_differs_from_issued",
				cause,
				"crt",
				format!(
					"CA served {} bytes, file holds {} bytes",
					pem.len(),
					snap.crt_len
				),
			));
		}
		if !snap.pk_parses || snap.pk_pub != csr_pub {
			rep.add(Violation::new(
				"C02",
				"key_file_is_not_the_csr_key",
				"",
				"pk",
				String::new(),
			));
		}
	}
}
