// C04 -- every ACME POST is a valid, fresh, correctly bound JWS.
// Oracle: the model CA's strict verifier (ca/mod.rs verify_post) on every POST the transport seam
// delivers; judged on fault-free families only (DESIGN.md 7/C04, 9.4).
use super::super::run::RunResult;
use super::{Report, Violation};

pub fn check(r: &RunResult, rep: &mut Report) {
	let w = &r.world;
	if r.panic.is_some() {
		return;
	}
	let fault_free = w.plan.faults.iter().all(|f| f.site != "net")
		&& w.fault_fired
			.keys()
			.all(|k| !k.starts_with("net.") && !k.starts_with("fs."));
	for ca in w.cas.iter() {
		for p in ca.posts.iter() {
			rep.nontrivial = true;
			rep.probe("c04.posts", 1);
			rep.probe(&format!("c04.class.{}", p.class), 1);
			if !p.key_kind.is_empty() {
				rep.probe(&format!("c04.key.{}", p.key_kind), 1);
			}
			if p.short_component {
				rep.probe("c04.ecdsa_short_component", 1);
				rep.probe(&format!("c04.ecdsa_short_component.{}", p.key_kind), 1);
			}
			if p.scripted.as_deref() == Some("knob_bad_nonce") {
				rep.probe("c04.badnonce_answers", 1);
			}
			if p.nonce_state == super::super::ca::NonceState::Expired {
				rep.probe("c04.expired_nonce_answers", 1);
			}
			if !fault_free {
				continue;
			}
			for prob in p.problems.iter() {
				let kind = prob.split(':').next().unwrap_or("problem");
				let cause = match kind {
					"nonce" => prob
						.split(':')
						.nth(1)
						.unwrap_or("")
						.split(' ')
						.next()
						.unwrap_or("")
						.trim_matches(|c| c == '{' || c == ' ')
						.to_string(),
					_ => String::new(),
				};
				rep.add(Violation::new(
					"C04",
					kind,
					&cause,
					&p.class,
					format!(
						"{} (url {}, alg {}, key {})",
						prob, p.url, p.alg, p.key_kind
					),
				));
			}
		}
		for kc in ca.key_changes.iter() {
			rep.probe("c04.key_changes", 1);
			if fault_free && !kc.ok {
				rep.add(Violation::new(
					"C04",
					"key_change_refused",
					"",
					"keyChange",
					kc.why.clone(),
				));
			}
		}
		for na in ca.new_accounts.iter() {
			if na.eab_ok == Some(true) {
				rep.probe("c04.eab_verified", 1);
			}
		}
	}
}
