// C08 -- recoverable errors are retried with a fresh nonce, boundedly; others are not.
// Oracle: the CA's per-class transmission log against the plan's single error run (family F2p),
// and the per-object poll counts (family F2n, objects that never reach the awaited status).
use super::super::plan::FaultKind;
use super::super::run::RunResult;
use super::super::world::Ev;
use super::common::{self, RECOVERABLE};
use super::{Report, Violation};

pub fn check(r: &RunResult, rep: &mut Report) {
	let w = &r.world;
	if r.panic.is_some() {
		return;
	}
	let atts = common::attempts(w);
	let sendseq = common::tx_send_seq(w);
	// ---- polling bound: per object and phase, per attempt, at most 20 polls ----
	for ca in w.cas.iter() {
		let mut counts: std::collections::BTreeMap<(String, String, usize), u64> =
			Default::default();
		for p in ca.posts.iter() {
			if !["authzPoll", "orderPollReady", "orderPollValid"].contains(&p.class.as_str()) {
				continue;
			}
			// retransmissions of one poll (after a scripted recoverable error) are one poll
			if p.scripted.is_some() {
				continue;
			}
			let seq = sendseq.get(&p.tx).copied().unwrap_or(0);
			let att = common::attempt_at(&atts, seq, None).unwrap_or(usize::MAX);
			*counts
				.entry((p.class.clone(), p.url.clone(), att))
				.or_insert(0) += 1;
		}
		for ((class, url, _), n) in counts.iter() {
			rep.probe(&format!("c08.max_polls.{}", class), 0);
			if *n >= 20 {
				rep.probe("c08.poll_bound_reached", 1);
				rep.nontrivial = true;
			}
			if *n > 20 {
				rep.add(Violation::new(
					"C08",
					"poll_bound_exceeded",
					class,
					"",
					format!("{} polls of {} in one attempt", n, url),
				));
			}
		}
	}
	// ---- the error run ----
	let mut faults: Vec<_> = w.plan.faults.iter().filter(|f| f.site == "net").collect();
	if faults.is_empty() || w.plan.config.certificates.len() != 1 {
		return;
	}
	// One error run may be scripted as several contiguous segments on the same request (family F2m:
	// recoverable errors of different types): it is judged as one run if every segment is a
	// recoverable ACME error; other combinations are not judged here.
	faults.sort_by_key(|f| f.nth);
	let merged;
	let mut mixed_cause: Option<String> = None;
	let f = if faults.len() == 1 {
		faults[0]
	} else {
		let same_place = faults.iter().all(|x| x.ca == faults[0].ca && x.class == faults[0].class && x.cert == faults[0].cert);
		let mut next = faults[0].nth.max(1);
		let mut contiguous = true;
		for x in faults.iter() {
			if x.nth.max(1) != next {
				contiguous = false;
			}
			next = x.nth.max(1) + x.count.max(1);
		}
		let all_recoverable = faults.iter().all(|x| matches!(&x.kind, FaultKind::Acme { typ, .. } if RECOVERABLE.contains(&typ.as_str())));
		if !same_place || !contiguous || !all_recoverable {
			return;
		}
		let mut types: Vec<String> = vec![];
		for x in faults.iter() {
			if let FaultKind::Acme { typ, .. } = &x.kind {
				if !types.contains(typ) {
					types.push(typ.clone());
				}
			}
		}
		let mut m = faults[0].clone();
		m.count = faults.iter().map(|x| x.count.max(1)).sum();
		// every segment is recoverable: the first type stands for the class of the run, the cause names all
		mixed_cause = Some(types.join("+"));
		merged = m;
		rep.probe("c08.mixed_recoverable_runs", 1);
		&merged
	};
	let (typ, has_problem_doc) = match &f.kind {
		FaultKind::Acme { typ, .. } => (typ.clone(), true),
		FaultKind::Http { .. } => (String::new(), false),
		_ => return,
	};
	let ca = &w.cas[f.ca];
	let class_posts: Vec<_> = ca.posts.iter().filter(|p| p.class == f.class).collect();
	let first = (f.nth.max(1) - 1) as usize;
	let run = f.count.max(1) as usize;
	if class_posts.len() <= first {
		return; // the position was not reached in this run
	}
	rep.nontrivial = true;
	let recoverable = has_problem_doc && RECOVERABLE.contains(&typ.as_str());
	let p0 = class_posts[first];
	let scripted: Vec<_> = class_posts[first..]
		.iter()
		.take_while(|p| p.scripted.is_some())
		.collect();
	let phase = f.class.clone();
	let cause = if !has_problem_doc {
		"no_problem_document".to_string()
	} else if typ.is_empty() {
		"absent_type".to_string()
	} else {
		typ.clone()
	};
	let cause = mixed_cause.unwrap_or(cause);
	// the attempt the affected request belongs to
	let seq0 = sendseq.get(&p0.tx).copied().unwrap_or(0);
	let att = match common::attempt_at(&atts, seq0, None) {
		Some(a) => &atts[a],
		None => return,
	};
	let end_seq = att.end.map(|e| e.seq).unwrap_or(u64::MAX);
	// transmissions of the same logical request inside this attempt: same class, same url, same payload
	let mut same = vec![];
	for p in class_posts[first..].iter() {
		let in_attempt = sendseq.get(&p.tx).copied().unwrap_or(u64::MAX) <= end_seq;
		if !in_attempt || p.url != p0.url || p.payload_hash != p0.payload_hash {
			break;
		}
		same.push(p);
		if p.scripted.is_none() {
			break; // answered normally: the logical request ends here
		}
	}
	if recoverable {
		rep.probe("c08.recoverable_runs", 1);
		let want = (run + 1).min(10);
		// count only up to the first non-scripted (= answered normally) transmission
		let got = scripted.len().min(same.len()) + if scripted.len() < same.len() { 1 } else { 0 };
		if got != want {
			rep.add(Violation::new("C08", "retransmission_count", &cause, &phase, format!("error run of {}: expected {} transmissions, saw {} (scripted {}, same-request {})", run, want, got, scripted.len(), same.len())));
		}
		// each retransmission carries the newest nonce (the one attached to the previous reply) and is fresh
		for k in 1..got.min(same.len()) {
			let prev = same[k - 1];
			let cur = same[k];
			if cur.nonce != prev.reply_nonce {
				rep.add(Violation::new(
					"C08",
					"retry_not_newest_nonce",
					&cause,
					&phase,
					format!(
						"retransmission {} carries nonce {:?}, the previous reply attached {:?}",
						k + 1,
						cur.nonce,
						prev.reply_nonce
					),
				));
			}
			if cur.url != p0.url || cur.payload_hash != p0.payload_hash {
				rep.add(Violation::new(
					"C08",
					"retry_content_changed",
					&cause,
					&phase,
					String::new(),
				));
			}
		}
		if got > 10 || scripted.len() > 10 {
			rep.add(Violation::new(
				"C08",
				"more_than_10_transmissions",
				&cause,
				&phase,
				format!("{}", got),
			));
		}
		let should_succeed = run < 10;
		if should_succeed {
			rep.probe("c08.recovered", 1);
			if att.ok == Some(false) {
				rep.add(Violation::new(
					"C08",
					"recoverable_run_not_recovered",
					&cause,
					&phase,
					format!("error run of {} (< 10) but the attempt failed", run),
				));
			}
		} else {
			rep.probe("c08.gave_up_after_10", 1);
			if att.ok == Some(true) {
				rep.add(Violation::new(
					"C08",
					"success_after_exhausted_retries",
					&cause,
					&phase,
					String::new(),
				));
			}
		}
	} else {
		rep.probe("c08.unrecoverable_runs", 1);
		let adne_flow = typ == "accountDoesNotExist"
			&& (f.class == "newOrder" || f.class == "account" || f.class == "keyChange");
		if adne_flow {
			// C11's re-registration flow: a newAccount, then exactly one more transmission
			rep.probe("c08.adne_reregistration", 1);
			if same.len() > 2 {
				rep.add(Violation::new(
					"C08",
					"resent_after_unrecoverable",
					&cause,
					&phase,
					format!("{} transmissions after accountDoesNotExist", same.len()),
				));
			}
			let should_succeed = run < 2;
			if !should_succeed && att.ok == Some(true) {
				rep.add(Violation::new(
					"C08",
					"error_taken_for_success",
					&cause,
					&phase,
					String::new(),
				));
			}
			return;
		}
		if same.len() != 1 {
			rep.add(Violation::new(
				"C08",
				"resent_after_unrecoverable",
				&cause,
				&phase,
				format!(
					"{} transmissions of a request answered with an unrecoverable error",
					same.len()
				),
			));
		}
		if att.ok == Some(true) {
			rep.add(Violation::new(
				"C08",
				"error_taken_for_success",
				&cause,
				&phase,
				String::new(),
			));
		}
		// no later request of that attempt
		let reply_seq = w
			.trace
			.iter()
			.find(|e| matches!(&e.ev, Ev::NetReply { tx, .. } if *tx == p0.tx))
			.map(|e| e.seq)
			.unwrap_or(0);
		let later = w
			.trace
			.iter()
			.filter(|e| e.seq > reply_seq && e.seq < end_seq && matches!(&e.ev, Ev::NetSend { .. }))
			.count();
		if later > 0 {
			rep.add(Violation::new(
				"C08",
				"attempt_continued_after_unrecoverable",
				&cause,
				&phase,
				format!("{} further requests in the same attempt", later),
			));
		}
	}
}
