// C12 -- concurrent renewals never deadlock, double-register or share nonces.
use super::super::ca::NonceState;
use super::super::run::RunResult;
use super::super::world::Ev;
use super::common;
use super::{Report, Violation};
use std::collections::BTreeMap;

pub fn check(r: &RunResult, rep: &mut Report) {
	let w = &r.world;
	if r.panic.is_some() {
		return; // reported by monitors::check
	}
	if w.plan.config.certificates.len() >= 2 {
		rep.nontrivial = true;
	}
	// (1) every renewal attempt terminates: the executor's deadlock / livelock detectors
	for o in r.outcomes.iter() {
		if o == "Deadlock" || o == "Livelock" {
			let open: Vec<String> = common::attempts(w)
				.iter()
				.filter(|a| a.end.is_none())
				.map(|a| a.cert.clone())
				.collect();
			rep.add(Violation::new(
				"C12",
				if o == "Deadlock" {
					"deadlock"
				} else {
					"livelock"
				},
				"",
				"",
				format!(
					"the daemon can make no progress; attempts still open: {:?}",
					open
				),
			));
		}
	}
	let fault_free = w.plan.faults.is_empty();
	if fault_free && r.outcomes.iter().any(|o| o.contains("horizon")) {
		// fault-free plans are sized so that every certificate completes its attempts
		let atts = common::attempts(w);
		let last_boot = atts.iter().map(|a| a.boot).max().unwrap_or(0);
		for a in atts
			.iter()
			.filter(|a| a.end.is_none() && a.boot == last_boot)
		{
			let cut = w.trace.iter().any(|e| {
				e.seq > a.begin.seq
					&& matches!(&e.ev, Ev::Stopped { why } if why == "stop" || why == "crash")
			});
			if !cut && (w.mono - a.begin.t) > 20_000 * 1_000_000_000 {
				rep.add(Violation::new(
					"C12",
					"attempt_never_terminated",
					"",
					&common::last_class_in(w, a),
					format!(
						"{} began at {} s and was still running at {} s",
						a.cert,
						a.begin.t / 1_000_000_000,
						w.mono / 1_000_000_000
					),
				));
			}
		}
	}
	for ca in w.cas.iter() {
		// (2) a shared account is registered once per endpoint; again only when the CA reported it
		// unknown (or the external binding changed)
		let mut by_key: BTreeMap<String, Vec<&super::super::ca::NewAccountRec>> = BTreeMap::new();
		for na in ca.new_accounts.iter() {
			by_key
				.entry(na.thumb.clone())
				.or_insert_with(Vec::new)
				.push(na);
		}
		for (thumb, list) in by_key.iter() {
			rep.probe("c12.account_keys_seen", 1);
			let mut paid: Vec<u64> = vec![]; // tx of accountDoesNotExist answers already used
			let mut last_eab: Option<Option<String>> = None;
			for (i, na) in list.iter().enumerate() {
				let legit = if i == 0 {
					true
				} else {
					// a distinct earlier accountDoesNotExist answer for an account of this key
					let acct_ids: Vec<usize> = ca
						.accounts
						.iter()
						.filter(|a| a.key_history.iter().any(|(_, t)| t == thumb))
						.map(|a| a.id)
						.collect();
					let pay = ca
						.does_not_exist
						.iter()
						.find(|(tx, a)| *tx < na.tx && acct_ids.contains(a) && !paid.contains(tx));
					match pay {
						Some((tx, _)) => {
							paid.push(*tx);
							rep.probe("c12.reregistrations_after_forget", 1);
							true
						}
						None => last_eab.as_ref().map(|e| e != &na.eab_kid).unwrap_or(false),
					}
				};
				last_eab = Some(na.eab_kid.clone());
				if !legit && fault_free {
					rep.add(Violation::new("C12", "account_registered_twice", "", "newAccount", format!("newAccount number {} for key {} on {} without the CA having reported the account unknown", i + 1, &thumb[..8.min(thumb.len())], ca.host)));
				}
			}
		}
		// (3) no request re-uses a nonce consumed by another request
		if fault_free {
			for p in ca.posts.iter() {
				if let NonceState::Consumed { by_tx } = p.nonce_state {
					let other = ca.posts.iter().find(|q| q.tx == by_tx);
					let same_cert = other.map(|q| q.cert == p.cert).unwrap_or(false);
					rep.add(Violation::new(
						"C12",
						"nonce_reused",
						if same_cert {
							"same_certificate"
						} else {
							"across_certificates"
						},
						&p.class,
						format!(
							"nonce {:?} of tx {} was consumed by tx {}",
							p.nonce, p.tx, by_tx
						),
					));
				}
			}
		}
		// interleaving reach: requests of different certificates alternating on this endpoint
		let mut switches = 0;
		let mut last: Option<usize> = None;
		for p in ca.posts.iter() {
			if let Some(c) = p.cert {
				if last.is_some() && last != Some(c) {
					switches += 1;
				}
				last = Some(c);
			}
		}
		rep.probe("c12.certificate_switches_on_endpoint", switches);
	}
}
