// C07 -- failures are contained and reported; the daemon keeps serving.
use super::super::plan::FaultKind;
use super::super::run::RunResult;
use super::super::toml_emit;
use super::super::world::Ev;
use super::common::{self, RECOVERABLE};
use super::{Report, Violation};

pub fn check(r: &RunResult, rep: &mut Report) {
	let w = &r.world;
	// (a) the daemon process keeps running: a panic is fatal under the shipped panic=abort
	// (already reported by monitors::check for C07)
	if r.panic.is_some() {
		rep.nontrivial = true;
		return;
	}
	for o in r.outcomes.iter() {
		if o == "Deadlock" {
			rep.add(Violation::new(
				"C07",
				"deadlock",
				"",
				"",
				"the daemon is pending with no wake-up outstanding".into(),
			));
		}
	}
	let atts = common::attempts(w);
	let n_faults = w.plan.faults.len();
	let last_fault_seq = last_fault_seq(w);
	for (ai, a) in atts.iter().enumerate() {
		let cert_idx = match w
			.plan
			.config
			.certificates
			.iter()
			.position(|c| toml_emit::cert_id(c) == a.cert)
		{
			Some(i) => i,
			None => continue,
		};
		// bounded attempts, in the statement's own numbers: every request at most 10 transmissions,
		// every polling phase at most 20 polls => an attempt sends at most 10 x (6 + 22 n + 42) POSTs
		{
			let n_ids = w.plan.config.certificates[cert_idx].identifiers.len() as u64;
			let bound = 10 * (6 + 22 * n_ids + 42);
			let end_seq = a.end.map(|e| e.seq).unwrap_or(u64::MAX);
			let sendseq = common::tx_send_seq(w);
			let single = w.plan.config.certificates.len() == 1;
			let posts: u64 = w
				.cas
				.iter()
				.map(|c| {
					c.posts
						.iter()
						.filter(|p| {
							(p.cert == Some(cert_idx) || (single && p.cert.is_none()))
								&& sendseq
									.get(&p.tx)
									.map(|s| *s > a.begin.seq && *s < end_seq)
									.unwrap_or(false)
						})
						.count() as u64
				})
				.sum();
			if posts > bound {
				rep.add(Violation::new(
					"C07",
					"attempt_unbounded",
					"",
					&common::last_class_in(w, a),
					format!(
						"{} POSTs in one attempt of {} (the statement's bounds allow at most {})",
						posts, a.cert, bound
					),
				));
			}
		}
		let end = match a.end {
			Some(e) => e,
			None => {
				// (b) bounded termination: an attempt still open when the run ended by horizon/cap
				let cut = w.trace.iter().any(|e| {
					e.seq > a.begin.seq
						&& matches!(&e.ev, Ev::Stopped { why } if why == "crash" || why == "stop")
				});
				let ended_by_horizon = r
					.outcomes
					.iter()
					.any(|o| o.contains("horizon") || o.contains("EventCap"));
				if !cut && ended_by_horizon && is_last_open(&atts, ai) {
					let dur = (w.mono - a.begin.t) / 1_000_000_000;
					if dur > attempt_time_bound(w, cert_idx) {
						let orders = w
							.cas
							.iter()
							.map(|c| {
								c.orders
									.iter()
									.filter(|o| {
										o.cert == Some(cert_idx) && o.created_t >= a.begin.t
									})
									.count()
							})
							.sum::<usize>();
						let cause =
							if orders == 0 && !w.plan.faults.iter().all(|f| f.cert.is_none()) {
								"never_got_the_endpoint"
							} else {
								""
							};
						if cause.is_empty() {
							rep.add(Violation::new(
								"C07",
								"attempt_not_terminated",
								cause,
								common::last_class_in(w, a).as_str(),
								format!(
									"attempt of {} still running after {} virtual seconds",
									a.cert, dur
								),
							));
						}
					}
				}
				continue;
			}
		};
		rep.nontrivial = rep.nontrivial || a.ok == Some(false);
		let dur = (end.t - a.begin.t) / 1_000_000_000;
		if dur > attempt_time_bound(w, cert_idx) {
			rep.add(Violation::new(
				"C07",
				"attempt_too_long",
				"",
				&common::last_class_in(w, a),
				format!("{} s", dur),
			));
		}
		// (c) post-operation hooks: exactly one batch per attempt, faithful report
		let cert = &w.plan.config.certificates[cert_idx];
		let hooks = super::super::expect::expand_hooks(&w.plan.config, &cert.hooks);
		let post_hooks: Vec<_> = hooks
			.iter()
			.filter(|h| h.types.iter().any(|t| t == "post-operation"))
			.collect();
		let mut seen: Vec<(String, Vec<String>)> = vec![];
		for e in w.trace.iter() {
			if e.seq <= a.begin.seq || e.seq >= end.seq {
				continue;
			}
			if let Ev::HookSpawn { rec, .. } = &e.ev {
				if common::hook_arg(&rec.argv, "is_success")
					.map(|v| !v.is_empty())
					.unwrap_or(false)
					&& common::hook_arg(&rec.argv, "status").is_some()
				{
					// a post-operation invocation of THIS certificate?
					let ids = common::hook_arg(&rec.argv, "identifiers").unwrap_or("");
					let mine = super::super::expect::cert_wire_idents(cert)
						.iter()
						.map(|(_, v)| v.clone())
						.collect::<Vec<_>>()
						.join(",");
					if ids == mine {
						seen.push((
							common::hook_arg(&rec.argv, "hook")
								.unwrap_or("")
								.to_string(),
							rec.argv.clone(),
						));
					}
				}
			}
		}
		if !post_hooks.is_empty() {
			// the batch may be cut short by a hook that fails hard (documented abort rule)
			let hard_fail_possible = post_hooks.iter().any(|h| !h.exits.is_empty())
				|| w.plan.faults.iter().any(|f| f.site == "proc");
			let want: Vec<String> = post_hooks.iter().map(|h| h.name.clone()).collect();
			let got: Vec<String> = seen.iter().map(|s| s.0.clone()).collect();
			let spawn_failed = w.trace.iter().any(|e| {
				e.seq > a.begin.seq && e.seq < end.seq && matches!(&e.ev, Ev::SpawnFail { .. })
			});
			let ok = if hard_fail_possible {
				(!got.is_empty() || spawn_failed) && want.starts_with(&got)
			} else {
				got == want
			};
			if !ok {
				let kind = if got.len() > want.len() {
					"post_operation_more_than_once"
				} else {
					"post_operation_missing"
				};
				rep.add(Violation::new(
					"C07",
					kind,
					"",
					&common::last_class_in(w, a),
					format!("expected post-operation hooks {:?}, ran {:?}", want, got),
				));
			}
			for (_, argv) in seen.iter() {
				let is_success = common::hook_arg(argv, "is_success").unwrap_or("");
				let status = common::hook_arg(argv, "status").unwrap_or("");
				let reported_ok = is_success == "true";
				if reported_ok != (a.ok == Some(true)) {
					rep.add(Violation::new(
						"C07",
						"report_disagrees_with_outcome",
						"",
						"",
						format!(
							"is_success={} but the attempt outcome was {:?}",
							is_success, a.ok
						),
					));
				}
				if reported_ok {
					// success only when the new certificate and key have been installed
					let snap = match &end.ev {
						Ev::AttemptEnd { snap, .. } => snap.clone(),
						_ => continue,
					};
					let issued_here = issued_in_attempt(w, a, cert_idx);
					let installed = snap.crt_present
						&& snap.crt_parses && snap.matches
						&& issued_here.iter().any(|pem| {
							super::super::util::sha256_hex(pem.as_bytes()) == snap.crt_hash
								|| pem_prefix_matches(pem, &snap)
						});
					if !installed {
						let cause = if !snap.crt_parses {
							"certificate_unparseable"
						} else if !snap.matches {
							"certificate_for_other_key"
						} else if issued_here.is_empty() {
							"nothing_issued"
						} else {
							"installed_file_differs_from_issued"
						};
						// a residue-only difference (C02's subject) is not a reporting defect
						if cause != "installed_file_differs_from_issued" {
							rep.add(Violation::new("C07", "false_success", cause, &common::last_class_in(w, a), "post-operation hook told is_success=true but the issued certificate and its key are not what is installed".into()));
						}
					}
					if status != "success" {
						rep.probe("c07.success_status_text_other", 1);
					}
				} else {
					if status.is_empty() || status == "success" {
						rep.add(Violation::new(
							"C07",
							"failure_without_error_text",
							"",
							&common::last_class_in(w, a),
							format!("status={:?}", status),
						));
					}
					// the injected problem's detail is reported (single unrecoverable error answers)
					if n_faults == 1 {
						if let FaultKind::Acme {
							typ,
							detail: Some(d),
							..
						} = &w.plan.faults[0].kind
						{
							let class = &w.plan.faults[0].class;
							let is_post = class != "directory" && class != "newNonce";
							let this_attempt_hit = fault_hit_in(w, a);
							if is_post
								&& this_attempt_hit && !RECOVERABLE.contains(&typ.as_str())
								&& typ != "accountDoesNotExist"
								&& !status.contains(d.as_str())
							{
								rep.add(Violation::new(
									"C07",
									"error_text_lost",
									typ,
									class,
									format!("status={:?} lacks the CA's detail {:?}", status, d),
								));
							}
						}
					}
				}
			}
		}
		// (d) after a failure, at least a second passes before the next attempt of that certificate
		if a.ok == Some(false) {
			if let Some(next) = atts
				.iter()
				.skip(ai + 1)
				.find(|n| n.cert == a.cert && n.boot == a.boot)
			{
				let gap = next.begin.t.saturating_sub(end.t);
				rep.probe("c07.retries_after_failure", 1);
				if gap < 1_000_000_000 {
					let snap = match &next.begin.ev {
						Ev::AttemptBegin { snap, .. } => snap.clone(),
						_ => continue,
					};
					let cause = if !snap.crt_present || !snap.pk_present {
						"files_missing"
					} else {
						"renewal_due"
					};
					rep.add(Violation::new(
						"C07",
						"no_pause_after_failure",
						cause,
						"",
						format!(
							"next attempt of {} began {} ns after the failed one ended",
							a.cert, gap
						),
					));
				}
			}
		}
	}
	// (e) bounded liveness once faults stop: every certificate not targeted by a permanent fault is
	// issued within the run's budget (the plan's Run ops are sized for it)
	let permanent: Vec<usize> = w
		.plan
		.faults
		.iter()
		.filter(|f| f.count >= 1_000_000)
		.filter_map(|f| f.cert)
		.collect();
	let any_permanent_global = w
		.plan
		.faults
		.iter()
		.any(|f| f.count >= 1_000_000 && f.cert.is_none());
	let hooks_fail = w
		.plan
		.config
		.hooks
		.iter()
		.any(|h| h.exits.iter().any(|c| *c != 0) && h.allow_failure != Some(true));
	if !any_permanent_global
		&& !hooks_fail
		&& r.outcomes.iter().all(|o| !o.contains("CrashPoint"))
		&& w.plan.family != "F6"
	{
		for (i, c) in w.plan.config.certificates.iter().enumerate() {
			if permanent.contains(&i) {
				continue;
			}
			let id = toml_emit::cert_id(c);
			let ok_any = atts.iter().any(|a| a.cert == id && a.ok == Some(true));
			let never_attempted = !atts.iter().any(|a| a.cert == id);
			// "once faults stop": judged only if at least two whole attempts ran after the last fault
			// that can have touched this certificate (permanent faults on OTHER certificates go on)
			let last = last_fault_seq_for(w, i);
			let clean_attempts = atts
				.iter()
				.filter(|a| a.cert == id && a.begin.seq > last && a.end.is_some())
				.count();
			let stuck_since_before = atts.iter().any(|a| {
				a.cert == id && a.end.is_none() && r.outcomes.iter().any(|o| o.contains("horizon"))
			});
			if !ok_any
				&& !never_attempted
				&& expects_liveness(w)
				&& (clean_attempts >= 2 || stuck_since_before)
			{
				let orders = w
					.cas
					.iter()
					.map(|c| c.orders.iter().filter(|o| o.cert == Some(i)).count())
					.sum::<usize>();
				let phase = if orders == 0 {
					"never_got_the_endpoint"
				} else {
					""
				};
				rep.add(Violation::new(
					"C07",
					"healthy_certificate_not_issued",
					if permanent.is_empty() {
						"after_faults_stopped"
					} else {
						"other_certificate_failing"
					},
					phase,
					format!(
						"{} was never issued within the run's budget ({} virtual s)",
						id,
						w.mono / 1_000_000_000
					),
				));
			}
		}
	}
	let _ = (last_fault_seq, n_faults);
}

fn expects_liveness(w: &super::super::world::World) -> bool {
	// the CA must be able to validate: families that make the CA refuse (validation invalid, terminal
	// authorization statuses, never-ready objects, SAN games) do not promise issuance
	w.cas.iter().all(|c| {
		c.knobs.validation.iter().all(|v| v == "valid")
			&& c.knobs
				.authz_status
				.iter()
				.all(|s| s.is_empty() || s == "pending" || s == "valid")
			&& c.knobs.polls_authz < 19
			&& c.knobs.polls_ready < 19
			&& c.knobs.polls_valid < 19
			&& !c.knobs.eab_required
	})
}

fn is_last_open(atts: &[common::Attempt], ai: usize) -> bool {
	!atts.iter().skip(ai + 1).any(|n| n.cert == atts[ai].cert)
}

fn last_fault_seq(w: &super::super::world::World) -> u64 {
	let mut last = 0;
	for e in w.trace.iter() {
		match &e.ev {
			Ev::NetDeliver { fault: Some(_), .. } => last = e.seq,
			Ev::HookExit { code, .. } if *code != Some(0) => last = e.seq,
			Ev::FsOpen { err: Some(_), .. }
			| Ev::FsWrite { err: Some(_), .. }
			| Ev::FsRead { err: Some(_), .. } => last = e.seq,
			Ev::SpawnFail { .. } => last = e.seq,
			_ => {}
		}
	}
	last
}

fn fault_hit_in(w: &super::super::world::World, a: &common::Attempt) -> bool {
	let end = a.end.map(|e| e.seq).unwrap_or(u64::MAX);
	w.trace.iter().any(|e| {
		e.seq > a.begin.seq && e.seq < end && matches!(&e.ev, Ev::NetDeliver { fault: Some(_), .. })
	})
}

/// generous bound derived from the statement's own numbers: every request at most 10 transmissions
/// with 1 s pauses, every polling phase at most 20 polls with 5 s pauses, plus I/O latencies
fn attempt_time_bound(w: &super::super::world::World, cert_idx: usize) -> u128 {
	let n = w.plan.config.certificates[cert_idx].identifiers.len() as u128;
	let lat = (w.plan.sched.net_us.1 as u128 * 2) / 1_000_000 + 1;
	let per_request = 10 * (1 + lat) + 5;
	let requests = 8 + n * 3 + 20 * (n + 2);
	let hooks = (w.plan.sched.proc_ms.1 as u128 / 1000 + 1) * (4 * n + 8) * 4;
	let limiter = 3700 * 2; // a rate limiter may legitimately hold requests (C09's subject)
	let mut delays = 0u128;
	for f in w.plan.faults.iter() {
		if let FaultKind::Delay { ms } = f.kind {
			delays += (ms as u128 / 1000 + 1) * f.count.max(1).min(1000) as u128;
		}
	}
	let others = w.plan.config.certificates.len() as u128;
	(per_request * requests + hooks + delays) * others
		+ if w.plan.config.rate_limits.is_empty() {
			0
		} else {
			limiter * requests
		}
}

/// PEM bodies the CA issued for this certificate's orders during the attempt
fn issued_in_attempt(
	w: &super::super::world::World,
	a: &common::Attempt,
	cert_idx: usize,
) -> Vec<String> {
	let end_t = a.end.map(|e| e.t).unwrap_or(u128::MAX);
	let mut out = vec![];
	for ca in w.cas.iter() {
		for i in ca.issued.iter() {
			if ca.orders[i.order].cert == Some(cert_idx) && i.t >= a.begin.t && i.t <= end_t {
				out.push(i.pem.clone());
			}
		}
	}
	out
}

fn pem_prefix_matches(pem: &str, snap: &super::super::snap::PairSnap) -> bool {
	// the installed file starts with the issued chain (a longer residue is C02's subject)
	snap.crt_len >= pem.len() && snap.crt_parses && snap.matches
}

/// event seq of the last fault that can have affected certificate `idx` (faults selected on another
/// certificate do not count)
fn last_fault_seq_for(w: &super::super::world::World, idx: usize) -> u64 {
	let mut last = 0;
	for e in w.trace.iter() {
		match &e.ev {
			Ev::NetDeliver {
				tx,
				fault: Some(_),
				ca,
				..
			} => {
				let cert = w
					.cas
					.get(*ca)
					.and_then(|c| c.posts.iter().find(|p| p.tx == *tx))
					.and_then(|p| p.cert);
				if cert.is_none() || cert == Some(idx) {
					last = e.seq;
				}
			}
			Ev::HookExit { code, .. } if *code != Some(0) => last = e.seq,
			Ev::FsOpen { err: Some(_), .. }
			| Ev::FsWrite { err: Some(_), .. }
			| Ev::FsRead { err: Some(_), .. } => last = e.seq,
			Ev::SpawnFail { .. } => last = e.seq,
			_ => {}
		}
	}
	last
}
