// C09 -- configured HTTP rate limits are never exceeded on any path.
// Oracle: exact window check in virtual time at the transport seam (every request of any kind is
// stamped when it is handed to the seam, i.e. at the limiter's admission instant).
use super::super::run::RunResult;
use super::super::toml_emit;
use super::super::world::Ev;
use super::c06::parse_period;
use super::common;
use super::{Report, Violation};

pub fn check(r: &RunResult, rep: &mut Report) {
	let w = &r.world;
	if r.panic.is_some() {
		return;
	}
	let cfg = &w.plan.config;
	if cfg.rate_limits.is_empty() {
		return;
	}
	for ep in cfg.endpoints.iter() {
		let limits: Vec<(u64, u128, String)> = ep
			.rate_limits
			.iter()
			.filter_map(|n| cfg.rate_limits.iter().find(|r| &r.name == n))
			.filter_map(|r| {
				parse_period(&r.period).map(|p| {
					(
						r.number,
						p as u128 * 1_000_000_000,
						format!("{}/{}", r.number, r.period),
					)
				})
			})
			.collect();
		if limits.is_empty() {
			continue;
		}
		// requests to this endpoint's CA (one endpoint per CA in the generated plans)
		if cfg.endpoints.iter().filter(|e| e.ca == ep.ca).count() != 1 {
			continue;
		}
		// per boot: the limiter's memory does not survive a restart
		let mut boots: Vec<Vec<(u128, String)>> = vec![vec![]];
		for e in w.trace.iter() {
			match &e.ev {
				Ev::Boot { .. } => boots.push(vec![]),
				Ev::NetSend {
					ca, method, url, ..
				} if *ca == ep.ca => boots
					.last_mut()
					.unwrap()
					.push((e.t, format!("{} {}", method, url))),
				_ => {}
			}
		}
		for times in boots.iter() {
			if times.is_empty() {
				continue;
			}
			rep.nontrivial = true;
			rep.probe("c09.requests", times.len() as u64);
			for (n, p, label) in limits.iter() {
				// for every request instant t: requests in (t - p, t] <= n
				let mut lo = 0usize;
				for hi in 0..times.len() {
					let t = times[hi].0;
					while times[lo].0 + *p <= t {
						lo += 1;
					}
					let count = (hi - lo + 1) as u64;
					if count == *n {
						rep.probe("c09.window_exactly_full", 1);
					}
					if count > *n {
						let kinds: Vec<&str> = times[lo..=hi]
							.iter()
							.map(|x| x.1.split(' ').next().unwrap_or(""))
							.collect();
						let has_get = kinds.iter().any(|k| *k == "GET");
						rep.add(Violation::new("C09", "rate_limit_exceeded", if has_get { "window_with_get" } else { "posts_only" }, "", format!("endpoint {} limit {}: {} requests within the window ending at {} ns ({:?})", ep.name, label, count, t, times[lo..=hi].iter().map(|x| x.1.rsplit('/').next().unwrap_or("")).collect::<Vec<_>>())));
						break;
					}
				}
			}
		}
	}
	// limiter actually slept?
	let slept = w
		.trace
		.iter()
		.filter(
			|e| matches!(&e.ev, Ev::TimerSleep { ns } if *ns >= 100_000_000 && *ns <= 3_600_000_000_000),
		)
		.count();
	rep.probe("c09.limiter_sleeps", slept as u64);
	// requests are not withheld for ever when the limits permit them: every certificate is issued
	// within the run's budget (the plans are sized for it), unless a fault plan says otherwise
	if w.plan.faults.iter().all(|f| f.count < 1_000_000)
		&& r.outcomes.iter().all(|o| !o.contains("EventCap"))
	{
		let atts = common::attempts(w);
		for c in cfg.certificates.iter() {
			let id = toml_emit::cert_id(c);
			if !atts.iter().any(|a| a.cert == id && a.ok == Some(true)) {
				let began = atts.iter().any(|a| a.cert == id);
				rep.add(Violation::new(
					"C09",
					"requests_withheld",
					if began {
						"attempt_never_completed"
					} else {
						"never_started"
					},
					"",
					format!(
						"{} not issued within {} virtual s",
						id,
						w.mono / 1_000_000_000
					),
				));
			}
		}
	}
}
