// C01 -- order and CSR carry exactly the configured identifiers and the stored key.
// The reference sits at the other party (the model CA) and at the durable store.
use super::super::expect;
use super::super::run::RunResult;
use super::super::world::Ev;
use super::common;
use super::{Report, Violation};
use openssl::nid::Nid;

fn subject_short_name(key: &str) -> Option<&'static str> {
	let nid = match key {
		"country_name" => Nid::COUNTRYNAME,
		"generation_qualifier" => Nid::GENERATIONQUALIFIER,
		"given_name" => Nid::GIVENNAME,
		"initials" => Nid::INITIALS,
		"locality_name" => Nid::LOCALITYNAME,
		"name" => Nid::NAME,
		"organization_name" => Nid::ORGANIZATIONNAME,
		"organizational_unit_name" => Nid::ORGANIZATIONALUNITNAME,
		"pkcs9_email_address" => Nid::PKCS9_EMAILADDRESS,
		"postal_address" => Nid::POSTALADDRESS,
		"postal_code" => Nid::POSTALCODE,
		"state_or_province_name" => Nid::STATEORPROVINCENAME,
		"street" => Nid::STREETADDRESS,
		"surname" => Nid::SURNAME,
		"title" => Nid::TITLE,
		_ => return None,
	};
	nid.short_name().ok()
}

/// classify a DER SubjectPublicKeyInfo: "rsa2048", "ecdsa-p256", "ed25519", ...
pub fn key_type_of_spki(der: &[u8]) -> String {
	use openssl::pkey::{Id, PKey};
	let k = match PKey::public_key_from_der(der) {
		Ok(k) => k,
		Err(_) => return "unparseable".into(),
	};
	match k.id() {
		Id::RSA => format!("rsa{}", k.bits()),
		Id::EC => match k.ec_key().ok().and_then(|e| e.group().curve_name()) {
			Some(Nid::X9_62_PRIME256V1) => "ecdsa-p256".into(),
			Some(Nid::SECP384R1) => "ecdsa-p384".into(),
			Some(Nid::SECP521R1) => "ecdsa-p521".into(),
			_ => "ec-other".into(),
		},
		Id::ED25519 => "ed25519".into(),
		Id::ED448 => "ed448".into(),
		_ => "other".into(),
	}
}

fn sorted(mut v: Vec<String>) -> Vec<String> {
	v.sort();
	v
}

pub fn check(r: &RunResult, rep: &mut Report) {
	let w = &r.world;
	if r.panic.is_some() || !w.plan.faults.is_empty() {
		return;
	}
	let certs = &w.plan.config.certificates;
	for ca in w.cas.iter() {
		// endpoints pointing to this CA, and the certificates using them
		let eps: Vec<&str> = w
			.plan
			.config
			.endpoints
			.iter()
			.filter(|e| e.ca == ca.idx)
			.map(|e| e.name.as_str())
			.collect();
		for o in ca.orders.iter() {
			rep.nontrivial = true;
			rep.probe("c01.orders", 1);
			let got: Vec<String> = o
				.identifiers
				.iter()
				.map(|(t, v)| format!("{}:{}", t, v))
				.collect();
			let cidx = match o.cert {
				Some(i) if eps.contains(&certs[i].endpoint.as_str()) => i,
				_ => {
					// which configured certificate is nearest?
					let near = certs
						.iter()
						.map(|c| {
							expect::cert_wire_idents(c)
								.iter()
								.map(|(t, v)| format!("{}:{}", t, v))
								.collect::<Vec<_>>()
						})
						.min_by_key(|e| {
							e.iter().filter(|x| !got.contains(x)).count()
								+ got.iter().filter(|x| !e.contains(x)).count()
						});
					let what = near
						.as_ref()
						.map(|n| {
							if n.len() != got.len() {
								"identifier_count"
							} else {
								"identifier_value"
							}
						})
						.unwrap_or("identifier_value");
					rep.add(Violation::new(
						"C01",
						"order_identifiers_not_the_configured_ones",
						what,
						"newOrder",
						format!("order lists {:?}; nearest configured set {:?}", got, near),
					));
					continue;
				}
			};
			let c = &certs[cidx];
			let exp = expect::cert_wire_idents(c);
			for (t, v) in exp.iter() {
				if t == "dns" && v.contains("xn--") {
					rep.probe("c01.idn_identifiers", 1);
				}
				if v.starts_with("*.") {
					rep.probe("c01.wildcard_identifiers", 1);
				}
				if t == "ip" {
					rep.probe("c01.ip_identifiers", 1);
				}
			}
			// retransmitted finalize: identical CSR
			let mut hashes: Vec<&String> = o.finalize_csrs.iter().map(|x| &x.1).collect();
			hashes.dedup();
			if hashes.len() > 1 {
				rep.add(Violation::new(
					"C01",
					"finalize_csr_changed_between_transmissions",
					"",
					"finalize",
					String::new(),
				));
			}
			let f = match &o.csr {
				Some(f) => f,
				None => continue,
			};
			rep.probe("c01.csrs", 1);
			if !f.ok || !f.self_sig_ok {
				rep.add(Violation::new(
					"C01",
					"csr_invalid",
					if f.ok {
						"self_signature"
					} else {
						"unparseable"
					},
					"finalize",
					f.problem.clone().unwrap_or_default(),
				));
				continue;
			}
			let exp_dns = sorted(
				exp.iter()
					.filter(|(t, _)| t == "dns")
					.map(|(_, v)| v.clone())
					.collect(),
			);
			let exp_ip = sorted(
				exp.iter()
					.filter(|(t, _)| t == "ip")
					.map(|(_, v)| v.clone())
					.collect(),
			);
			if sorted(f.dns.clone()) != exp_dns
				|| sorted(f.ips.clone()) != exp_ip
				|| f.other_extensions != 0
			{
				rep.add(Violation::new(
					"C01",
					"csr_san_mismatch",
					"",
					"finalize",
					format!(
						"CSR SAN dns={:?} ip={:?} other={} expected dns={:?} ip={:?}",
						f.dns, f.ips, f.other_extensions, exp_dns, exp_ip
					),
				));
			}
			let mut exp_subj: Vec<(String, String)> = c
				.subject_attributes
				.iter()
				.filter_map(|(k, v)| subject_short_name(k).map(|s| (s.to_string(), v.clone())))
				.collect();
			exp_subj.sort();
			let mut got_subj = f.subject.clone();
			got_subj.sort();
			if exp_subj != got_subj {
				rep.add(Violation::new(
					"C01",
					"csr_subject_mismatch",
					"",
					"finalize",
					format!("CSR subject {:?}, configured {:?}", got_subj, exp_subj),
				));
			}
			if !exp_subj.is_empty() {
				rep.probe("c01.csrs_with_subject_attributes", 1);
			}
			let kt = super::super::toml_emit::cert_key_type(c);
			let got_kt = key_type_of_spki(&f.pubkey_der);
			// with kp_reuse an existing key of whatever type is reused by design: the statement only
			// ties the CSR key to the stored key, so the configured type is demanded for fresh keys only
			let reused_foreign = c.kp_reuse == Some(true)
				&& w.plan
					.world
					.pre_files
					.iter()
					.any(|p| p.target == format!("pk:{}", cidx));
			if got_kt != kt && !reused_foreign {
				rep.add(Violation::new(
					"C01",
					"csr_key_type",
					"",
					"finalize",
					format!("CSR key is {}, configured {}", got_kt, kt),
				));
			}
			rep.probe(&format!("c01.key.{}", got_kt), 1);
			let exp_digest = if got_kt.starts_with("ed") {
				"none".to_string()
			} else {
				c.csr_digest.clone().unwrap_or_else(|| "sha256".into())
			};
			if f.digest != exp_digest {
				rep.add(Violation::new(
					"C01",
					"csr_digest",
					"",
					"finalize",
					format!("CSR signed with {}, configured {}", f.digest, exp_digest),
				));
			}
			rep.probe(&format!("c01.digest.{}", exp_digest), 1);
		}
	}
	// the key beside the certificate after a successful attempt is the CSR's key
	let atts = common::attempts(w);
	for a in atts.iter() {
		if a.ok != Some(true) {
			continue;
		}
		let end = a.end.unwrap();
		let snap = match &end.ev {
			Ev::AttemptEnd { snap, .. } => snap.clone(),
			_ => continue,
		};
		let idx = match snap.cert_idx {
			Some(i) => i,
			None => continue,
		};
		let mut csr_pub = None;
		for ca in w.cas.iter() {
			for o in ca.orders.iter() {
				if o.cert == Some(idx)
					&& o.created_t >= a.begin.t
					&& o.created_t <= end.t
					&& !o.downloads.is_empty()
				{
					csr_pub = o.csr.as_ref().map(|c| c.pubkey_der.clone());
				}
			}
		}
		if let Some(p) = csr_pub {
			rep.probe("c01.success_key_checked", 1);
			if !snap.pk_parses || snap.pk_pub != p {
				rep.add(Violation::new(
					"C01",
					"stored_key_is_not_the_csr_key",
					"",
					"",
					format!("certificate {}", a.cert),
				));
			}
			let kp = w.plan.config.certificates[idx].kp_reuse == Some(true);
			if kp {
				if let Ev::AttemptBegin { snap: b, .. } = &a.begin.ev {
					if b.pk_parses
						&& super::c01::key_type_of_spki(&b.pk_pub)
							== super::super::toml_emit::cert_key_type(
								&w.plan.config.certificates[idx],
							) {
						rep.probe("c01.kp_reuse_with_usable_key", 1);
						if b.pk_pub != p {
							rep.add(Violation::new(
								"C01",
								"kp_reuse_ignored_usable_key",
								"",
								"",
								String::new(),
							));
						}
					} else if b.pk_present {
						rep.probe("c01.kp_reuse_with_unusable_key_file", 1);
					}
				}
			}
		}
	}
}
