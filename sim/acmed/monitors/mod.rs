// Property monitors: evaluated over the recorded history of one run (trace, CA state, scratch
// tree).  A violation is identified by (property, kind, cause, phase/site) so that shrinking cannot
// slide to a different bug and known findings match specific failures only.
use super::run::RunResult;
use serde::{Deserialize, Serialize};
use std::collections::BTreeMap;

pub mod c01;
pub mod c02;
pub mod c03;
pub mod c04;
pub mod c05;
pub mod c06;
pub mod c07;
pub mod c08;
pub mod c09;
pub mod c10;
pub mod c11;
pub mod c12;
pub mod c13;
pub mod common;

#[derive(Serialize, Deserialize, Clone, Debug, PartialEq)]
pub struct Violation {
	pub property: String,
	pub kind: String,
	#[serde(default)]
	pub cause: String,
	#[serde(default)]
	pub phase: String,
	#[serde(default)]
	pub detail: String,
}

impl Violation {
	pub fn new(property: &str, kind: &str, cause: &str, phase: &str, detail: String) -> Violation {
		Violation {
			property: property.into(),
			kind: kind.into(),
			cause: cause.into(),
			phase: phase.into(),
			detail,
		}
	}
	pub fn key(&self) -> String {
		format!(
			"{}|{}|{}|{}",
			self.property, self.kind, self.cause, self.phase
		)
	}
}

#[derive(Default)]
pub struct Report {
	pub violations: Vec<Violation>,
	pub probes: BTreeMap<String, u64>,
	/// did this run reach the property's subject at all (non-trivial by the property's rule)?
	pub nontrivial: bool,
}

impl Report {
	pub fn probe(&mut self, k: &str, n: u64) {
		*self.probes.entry(k.to_string()).or_insert(0) += n;
	}
	pub fn add(&mut self, v: Violation) {
		if !self.violations.iter().any(|x| x.key() == v.key()) {
			self.violations.push(v);
		}
	}
}

pub fn check(prop: &str, r: &RunResult) -> Report {
	let mut rep = Report::default();
	if let Some(p) = &r.panic {
		// a panic is a C07 matter (the shipped profile aborts); every other monitor ignores the run
		if prop == "C07" || prop == "C12" {
			rep.add(Violation::new(
				prop,
				"panic",
				&common::panic_site(p),
				"",
				p.clone(),
			));
		}
	}
	match prop {
		"C01" => c01::check(r, &mut rep),
		"C02" => c02::check(r, &mut rep),
		"C04" => c04::check(r, &mut rep),
		"C05" => c05::check(r, &mut rep),
		"C09" => c09::check(r, &mut rep),
		"C10" => c10::check(r, &mut rep),
		"C11" => c11::check(r, &mut rep),
		"C12" => c12::check(r, &mut rep),
		"C13" => c13::check(r, &mut rep),
		"C03" => c03::check(r, &mut rep),
		"C06" => c06::check(r, &mut rep),
		"C07" => c07::check(r, &mut rep),
		"C08" => c08::check(r, &mut rep),
		_ => {}
	}
	rep
}
