// Harness PRNG: splitmix64-based, labelled sub-streams.  Every random choice of a run derives from
// the plan's seed through `Streams`; logging never draws.  (DESIGN.md section 6)

pub fn splitmix64(x: u64) -> u64 {
	let mut z = x.wrapping_add(0x9E37_79B9_7F4A_7C15);
	z = (z ^ (z >> 30)).wrapping_mul(0xBF58_476D_1CE4_E5B9);
	z = (z ^ (z >> 27)).wrapping_mul(0x94D0_49BB_1331_11EB);
	z ^ (z >> 31)
}

pub fn hash_str(s: &str) -> u64 {
	// FNV-1a 64, then one splitmix round
	let mut h: u64 = 0xcbf2_9ce4_8422_2325;
	for b in s.bytes() {
		h ^= b as u64;
		h = h.wrapping_mul(0x0000_0100_0000_01B3);
	}
	splitmix64(h)
}

pub fn mix(seed: u64, label: &str, instance: u64) -> u64 {
	splitmix64(splitmix64(seed ^ hash_str(label)).wrapping_add(splitmix64(instance)))
}

/// A small sequential generator (used by plan generators).
#[derive(Clone, Debug)]
pub struct Rng {
	state: u64,
}

impl Rng {
	pub fn new(seed: u64) -> Self {
		Rng { state: seed }
	}

	pub fn fork(&self, label: &str) -> Rng {
		Rng::new(mix(self.state, label, 0))
	}

	pub fn next_u64(&mut self) -> u64 {
		self.state = self.state.wrapping_add(0x9E37_79B9_7F4A_7C15);
		let mut z = self.state;
		z = (z ^ (z >> 30)).wrapping_mul(0xBF58_476D_1CE4_E5B9);
		z = (z ^ (z >> 27)).wrapping_mul(0x94D0_49BB_1331_11EB);
		z ^ (z >> 31)
	}

	/// uniform in [0, n) (n > 0)
	pub fn below(&mut self, n: u64) -> u64 {
		if n == 0 {
			return 0;
		}
		self.next_u64() % n
	}

	/// uniform in [lo, hi] inclusive
	pub fn range(&mut self, lo: u64, hi: u64) -> u64 {
		if hi <= lo {
			return lo;
		}
		lo + self.below(hi - lo + 1)
	}

	pub fn chance(&mut self, num: u64, den: u64) -> bool {
		self.below(den) < num
	}

	pub fn pick<'a, T>(&mut self, v: &'a [T]) -> &'a T {
		&v[self.below(v.len() as u64) as usize]
	}

	pub fn shuffle<T>(&mut self, v: &mut Vec<T>) {
		let n = v.len();
		for i in (1..n).rev() {
			let j = self.below((i + 1) as u64) as usize;
			v.swap(i, j);
		}
	}
}

/// Labelled streams: the i-th draw of label L is a pure function of (seed, L, i), so removing a
/// fault or a certificate from a plan does not shift unrelated draws.
#[derive(Clone, Debug, Default)]
pub struct Streams {
	pub seed: u64,
	counters: std::collections::BTreeMap<String, u64>,
}

impl Streams {
	pub fn new(seed: u64) -> Self {
		Streams {
			seed,
			counters: Default::default(),
		}
	}

	pub fn draw(&mut self, label: &str) -> u64 {
		let c = self.counters.entry(label.to_string()).or_insert(0);
		let v = mix(self.seed, label, *c);
		*c += 1;
		v
	}

	pub fn range(&mut self, label: &str, lo: u64, hi: u64) -> u64 {
		if hi <= lo {
			// still consume a draw so that the stream position is independent of the bounds
			let _ = self.draw(label);
			return lo;
		}
		lo + self.draw(label) % (hi - lo + 1)
	}
}
