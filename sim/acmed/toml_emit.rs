// Emit the daemon's TOML from the plan's configuration data, and compute (independently of the
// daemon) where each file of the plan lives.
use super::plan::{CertCfg, Config, Plan, SCRATCH};
use super::util::b64u;
use std::collections::BTreeMap;
use std::path::Path;

fn q(s: &str) -> String {
	let mut o = String::from("\"");
	for c in s.chars() {
		match c {
			'\\' => o.push_str("\\\\"),
			'"' => o.push_str("\\\""),
			'\n' => o.push_str("\\n"),
			'\r' => o.push_str("\\r"),
			'\t' => o.push_str("\\t"),
			c if (c as u32) < 0x20 || c as u32 == 0x7f => {
				o.push_str(&format!("\\u{:04X}", c as u32))
			}
			c => o.push(c),
		}
	}
	o.push('"');
	o
}

fn qlist(v: &[String]) -> String {
	format!(
		"[{}]",
		v.iter().map(|s| q(s)).collect::<Vec<_>>().join(", ")
	)
}

fn table(m: &BTreeMap<String, String>) -> String {
	format!(
		"{{ {} }}",
		m.iter()
			.map(|(k, v)| format!("{} = {}", q(k), q(v)))
			.collect::<Vec<_>>()
			.join(", ")
	)
}

fn sub(s: &str, scratch: &str) -> String {
	s.replace(SCRATCH, scratch)
}

pub fn cert_name(c: &CertCfg) -> String {
	let n = match &c.name {
		Some(n) => n.clone(),
		None => c
			.identifiers
			.first()
			.map(|i| i.raw().to_string())
			.unwrap_or_default(),
	};
	n.replace('*', "_").replace(':', "_").replace('/', "_")
}

pub fn cert_key_type(c: &CertCfg) -> String {
	c.key_type.clone().unwrap_or_else(|| "rsa2048".to_string())
}

pub fn cert_id(c: &CertCfg) -> String {
	format!("{}_{}", cert_name(c), cert_key_type(c))
}

/// selector -> absolute path, for every file the plan's configuration can produce
pub fn known_paths(plan: &Plan, scratch: &Path) -> Vec<(String, String)> {
	let s = scratch.to_string_lossy().to_string();
	let mut out = Vec::new();
	for (i, c) in plan.config.certificates.iter().enumerate() {
		let base = format!("{}/certs/{}_{}", s, cert_name(c), cert_key_type(c));
		out.push((format!("pk:{}", i), format!("{}.pk.pem", base)));
		out.push((format!("crt:{}", i), format!("{}.crt.pem", base)));
	}
	for a in plan.config.accounts.iter() {
		out.push((
			format!("account:{}", a.name),
			format!("{}/accounts/{}.account.bin", s, b64u(a.name.as_bytes())),
		));
	}
	out
}

pub fn path_of(plan: &Plan, scratch: &Path, sel: &str) -> Option<String> {
	known_paths(plan, scratch)
		.into_iter()
		.find(|(k, _)| k == sel)
		.map(|(_, v)| v)
}

pub fn emit(cfg: &Config, cas: &[super::plan::CaCfg], scratch: &Path) -> String {
	let s = scratch.to_string_lossy().to_string();
	let mut o = String::new();
	o.push_str("[global]\n");
	o.push_str(&format!(
		"accounts_directory = {}\n",
		q(&format!("{}/accounts", s))
	));
	o.push_str(&format!(
		"certificates_directory = {}\n",
		q(&format!("{}/certs", s))
	));
	let g = &cfg.global;
	if let Some(m) = g.cert_file_mode {
		o.push_str(&format!("cert_file_mode = 0o{:o}\n", m));
	}
	if let Some(m) = g.pk_file_mode {
		o.push_str(&format!("pk_file_mode = 0o{:o}\n", m));
	}
	for (k, v) in [
		("cert_file_user", &g.cert_file_user),
		("cert_file_group", &g.cert_file_group),
		("pk_file_user", &g.pk_file_user),
		("pk_file_group", &g.pk_file_group),
		("renew_delay", &g.renew_delay),
		("random_early_renew", &g.random_early_renew),
	]
	.iter()
	{
		if let Some(v) = v {
			o.push_str(&format!("{} = {}\n", k, q(v)));
		}
	}
	if !g.env.is_empty() {
		o.push_str(&format!("env = {}\n", table(&g.env)));
	}
	o.push('\n');
	for rl in &cfg.rate_limits {
		o.push_str(&format!(
			"[[rate-limit]]\nname = {}\nnumber = {}\nperiod = {}\n\n",
			q(&rl.name),
			rl.number,
			q(&rl.period)
		));
	}
	for e in &cfg.endpoints {
		let host = cas
			.get(e.ca)
			.map(|c| c.host.as_str())
			.unwrap_or("nowhere.sim");
		o.push_str(&format!(
			"[[endpoint]]\nname = {}\nurl = {}\ntos_agreed = {}\n",
			q(&e.name),
			q(&format!("https://{}/dir", host)),
			e.tos_agreed
		));
		if !e.rate_limits.is_empty() {
			o.push_str(&format!("rate_limits = {}\n", qlist(&e.rate_limits)));
		}
		o.push('\n');
	}
	for h in &cfg.hooks {
		o.push_str(&format!(
			"[[hook]]\nname = {}\ntype = {}\ncmd = {}\n",
			q(&h.name),
			qlist(&h.types),
			q(&h.cmd)
		));
		if let Some(a) = &h.args {
			let a: Vec<String> = a.iter().map(|x| sub(x, &s)).collect();
			o.push_str(&format!("args = {}\n", qlist(&a)));
		}
		if let Some(v) = &h.stdin {
			o.push_str(&format!("stdin = {}\n", q(&sub(v, &s))));
		}
		if let Some(v) = &h.stdin_str {
			o.push_str(&format!("stdin_str = {}\n", q(&sub(v, &s))));
		}
		if let Some(v) = &h.stdout {
			o.push_str(&format!("stdout = {}\n", q(&sub(v, &s))));
		}
		if let Some(v) = &h.stderr {
			o.push_str(&format!("stderr = {}\n", q(&sub(v, &s))));
		}
		if let Some(v) = h.allow_failure {
			o.push_str(&format!("allow_failure = {}\n", v));
		}
		o.push('\n');
	}
	for gr in &cfg.groups {
		o.push_str(&format!(
			"[[group]]\nname = {}\nhooks = {}\n\n",
			q(&gr.name),
			qlist(&gr.hooks)
		));
	}
	for a in &cfg.accounts {
		o.push_str(&format!("[[account]]\nname = {}\n", q(&a.name)));
		let cts: Vec<String> = a
			.contacts
			.iter()
			.map(|c| format!("{{ mailto = {} }}", q(c)))
			.collect();
		o.push_str(&format!("contacts = [{}]\n", cts.join(", ")));
		if let Some(k) = &a.key_type {
			o.push_str(&format!("key_type = {}\n", q(k)));
		}
		if let Some(k) = &a.signature_algorithm {
			o.push_str(&format!("signature_algorithm = {}\n", q(k)));
		}
		if !a.hooks.is_empty() {
			o.push_str(&format!("hooks = {}\n", qlist(&a.hooks)));
		}
		if !a.env.is_empty() {
			o.push_str(&format!("env = {}\n", table(&a.env)));
		}
		if let Some(e) = &a.external_account {
			let mut t = format!("identifier = {}, key = {}", q(&e.identifier), q(&e.key));
			if let Some(al) = &e.signature_algorithm {
				t.push_str(&format!(", signature_algorithm = {}", q(al)));
			}
			o.push_str(&format!("external_account = {{ {} }}\n", t));
		}
		o.push('\n');
	}
	for c in &cfg.certificates {
		o.push_str(&format!(
			"[[certificate]]\naccount = {}\nendpoint = {}\nhooks = {}\n",
			q(&c.account),
			q(&c.endpoint),
			qlist(&c.hooks)
		));
		if let Some(n) = &c.name {
			o.push_str(&format!("name = {}\n", q(n)));
		}
		let ids: Vec<String> = c
			.identifiers
			.iter()
			.map(|i| {
				let mut t = match (&i.dns, &i.ip) {
					(Some(d), _) => format!("dns = {}", q(d)),
					(None, Some(ip)) => format!("ip = {}", q(ip)),
					_ => String::new(),
				};
				t.push_str(&format!(", challenge = {}", q(&i.challenge)));
				if !i.env.is_empty() {
					t.push_str(&format!(", env = {}", table(&i.env)));
				}
				format!("{{ {} }}", t)
			})
			.collect();
		o.push_str(&format!("identifiers = [{}]\n", ids.join(", ")));
		for (k, v) in [
			("key_type", &c.key_type),
			("csr_digest", &c.csr_digest),
			("renew_delay", &c.renew_delay),
			("random_early_renew", &c.random_early_renew),
		]
		.iter()
		{
			if let Some(v) = v {
				o.push_str(&format!("{} = {}\n", k, q(v)));
			}
		}
		if let Some(b) = c.kp_reuse {
			o.push_str(&format!("kp_reuse = {}\n", b));
		}
		if !c.env.is_empty() {
			o.push_str(&format!("env = {}\n", table(&c.env)));
		}
		if !c.subject_attributes.is_empty() {
			o.push_str(&format!(
				"subject_attributes = {}\n",
				table(&c.subject_attributes)
			));
		}
		o.push('\n');
	}
	o
}
