// Minimal DER walker for the oracle (CSR signature algorithm, certificate extensions).
pub struct Tlv<'a> {
	pub tag: u8,
	pub body: &'a [u8],
	pub rest: &'a [u8],
}

pub fn tlv(data: &[u8]) -> Option<Tlv<'_>> {
	if data.len() < 2 {
		return None;
	}
	let tag = data[0];
	let (len, hdr) = if data[1] & 0x80 == 0 {
		(data[1] as usize, 2)
	} else {
		let n = (data[1] & 0x7f) as usize;
		if n == 0 || n > 4 || data.len() < 2 + n {
			return None;
		}
		let mut l = 0usize;
		for b in &data[2..2 + n] {
			l = (l << 8) | *b as usize;
		}
		(l, 2 + n)
	};
	if data.len() < hdr + len {
		return None;
	}
	Some(Tlv {
		tag,
		body: &data[hdr..hdr + len],
		rest: &data[hdr + len..],
	})
}

pub fn children(mut body: &[u8]) -> Vec<Tlv<'_>> {
	let mut v = Vec::new();
	while let Some(t) = tlv(body) {
		body = t.rest;
		v.push(t);
	}
	v
}

pub fn oid_to_string(body: &[u8]) -> String {
	if body.is_empty() {
		return String::new();
	}
	let mut parts = vec![(body[0] / 40) as u64, (body[0] % 40) as u64];
	let mut acc = 0u64;
	for b in &body[1..] {
		acc = (acc << 7) | (*b & 0x7f) as u64;
		if b & 0x80 == 0 {
			parts.push(acc);
			acc = 0;
		}
	}
	parts
		.iter()
		.map(|p| p.to_string())
		.collect::<Vec<_>>()
		.join(".")
}

/// signatureAlgorithm OID of a DER CertificationRequest or Certificate (second member of the
/// outer SEQUENCE)
pub fn outer_sig_alg_oid(der: &[u8]) -> Option<String> {
	let outer = tlv(der)?;
	if outer.tag != 0x30 {
		return None;
	}
	let kids = children(outer.body);
	let alg = kids.get(1)?;
	if alg.tag != 0x30 {
		return None;
	}
	let inner = children(alg.body);
	let oid = inner.get(0)?;
	if oid.tag != 0x06 {
		return None;
	}
	Some(oid_to_string(oid.body))
}

pub fn sig_alg_digest(oid: &str) -> &'static str {
	match oid {
		"1.2.840.10045.4.3.2" | "1.2.840.113549.1.1.11" => "sha256",
		"1.2.840.10045.4.3.3" | "1.2.840.113549.1.1.12" => "sha384",
		"1.2.840.10045.4.3.4" | "1.2.840.113549.1.1.13" => "sha512",
		"1.3.101.112" | "1.3.101.113" => "none",
		_ => "unknown",
	}
}
