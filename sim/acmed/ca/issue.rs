// Certificate issuance by the model CA: a per-process private hierarchy (root + up to three
// intermediates), CSR inspection, leaf certificates dated in VIRTUAL time.
use super::der;
use openssl::asn1::{Asn1Integer, Asn1Time};
use openssl::bn::BigNum;
use openssl::hash::MessageDigest;
use openssl::pkey::{PKey, Private, Public};
use openssl::x509::extension::{BasicConstraints, SubjectAlternativeName};
use openssl::x509::{X509Builder, X509NameBuilder, X509Req, X509};
use std::net::IpAddr;

pub struct Hierarchy {
	/// [root, int1, int2, int3]: each signs the next
	pub keys: Vec<PKey<Private>>,
	pub certs: Vec<X509>,
}

/// Hierarchy keys are Ed25519 keys derived from fixed bytes: Ed25519 signatures are deterministic
/// and fixed-width, so every certificate the model CA serves has a length that depends only on
/// the plan (ECDSA DER signatures vary by a byte or two between runs, which would make "is the new
/// chain shorter than the old file" a coin flip and break replay).
fn ed25519(i: u8) -> PKey<Private> {
	let mut raw = [0x5Au8; 32];
	raw[0] = i;
	raw[31] = 0xC3 ^ i;
	PKey::private_key_from_raw_bytes(&raw, openssl::pkey::Id::ED25519).unwrap()
}

fn name(cn: &str) -> openssl::x509::X509Name {
	let mut b = X509NameBuilder::new().unwrap();
	b.append_entry_by_text("O", "acmed-verif model CA").unwrap();
	b.append_entry_by_text("CN", cn).unwrap();
	b.build()
}

fn serial(n: u64) -> Asn1Integer {
	BigNum::from_dec_str(&n.to_string())
		.unwrap()
		.to_asn1_integer()
		.unwrap()
}

impl Hierarchy {
	pub fn new() -> Hierarchy {
		let mut keys = Vec::new();
		let mut certs: Vec<X509> = Vec::new();
		for i in 0..4 {
			let key = ed25519(i as u8);
			let cn = if i == 0 {
				"Sim Root".to_string()
			} else {
				format!("Sim Intermediate {}", i)
			};
			let mut b = X509Builder::new().unwrap();
			b.set_version(2).unwrap();
			b.set_serial_number(&serial(1000 + i as u64)).unwrap();
			b.set_subject_name(&name(&cn)).unwrap();
			if i == 0 {
				b.set_issuer_name(&name(&cn)).unwrap();
			} else {
				b.set_issuer_name(certs[i - 1].subject_name()).unwrap();
			}
			b.set_pubkey(&key).unwrap();
			b.set_not_before(&Asn1Time::from_unix(0).unwrap()).unwrap();
			b.set_not_after(&Asn1Time::from_unix(32_503_680_000).unwrap())
				.unwrap(); // year 3000
			b.append_extension(BasicConstraints::new().critical().ca().build().unwrap())
				.unwrap();
			let signer = if i == 0 { &key } else { &keys[i - 1] };
			b.sign(signer, MessageDigest::null()).unwrap();
			certs.push(b.build());
			keys.push(key);
		}
		Hierarchy { keys, certs }
	}
}

thread_local! {
	static HIER: Hierarchy = Hierarchy::new();
}

/// build the fixed hierarchy now (the worker's parent process does it once, before it forks a run)
pub fn warm() {
	HIER.with(|h| {
		let _ = h.certs.len();
	});
}

#[derive(Clone, Debug, Default)]
pub struct CsrFacts {
	pub ok: bool,
	pub problem: Option<String>,
	pub self_sig_ok: bool,
	pub dns: Vec<String>,
	pub ips: Vec<String>,
	/// (short name / NID text, value)
	pub subject: Vec<(String, String)>,
	pub digest: String,
	pub pubkey_der: Vec<u8>,
	pub der: Vec<u8>,
	pub other_extensions: usize,
}

pub fn ip_from_bytes(i: &[u8]) -> String {
	match i.len() {
		4 => IpAddr::from([i[0], i[1], i[2], i[3]]).to_string(),
		16 => {
			let mut a = [0u8; 16];
			a.copy_from_slice(i);
			IpAddr::from(a).to_string()
		}
		_ => format!("<{} octets>", i.len()),
	}
}

pub fn inspect_csr(csr_der: &[u8]) -> (CsrFacts, Option<PKey<Public>>) {
	let mut f = CsrFacts::default();
	f.der = csr_der.to_vec();
	let req = match X509Req::from_der(csr_der) {
		Ok(r) => r,
		Err(e) => {
			f.problem = Some(format!("CSR does not parse: {}", e));
			return (f, None);
		}
	};
	let pk = match req.public_key() {
		Ok(p) => p,
		Err(e) => {
			f.problem = Some(format!("CSR public key: {}", e));
			return (f, None);
		}
	};
	f.self_sig_ok = req.verify(&pk).unwrap_or(false);
	f.pubkey_der = pk.public_key_to_der().unwrap_or_default();
	for e in req.subject_name().entries() {
		let nid = e.object().nid();
		let k = nid.short_name().unwrap_or("?").to_string();
		let v = e
			.data()
			.as_utf8()
			.map(|s| s.to_string())
			.unwrap_or_default();
		f.subject.push((k, v));
	}
	f.digest = der::outer_sig_alg_oid(csr_der)
		.map(|o| der::sig_alg_digest(&o).to_string())
		.unwrap_or_default();
	// SAN: copy the requested extensions into a scratch certificate and read them back with
	// OpenSSL's own GeneralName parser.
	if let Ok(exts) = req.extensions() {
		let mut b = X509Builder::new().unwrap();
		let mut n = 0;
		for e in exts.iter() {
			n += 1;
			let _ = b.append_extension2(e);
		}
		let tmp = b.build();
		if let Some(sans) = tmp.subject_alt_names() {
			for s in sans.iter() {
				if let Some(d) = s.dnsname() {
					f.dns.push(d.to_string());
				} else if let Some(i) = s.ipaddress() {
					f.ips.push(ip_from_bytes(i));
				} else {
					f.other_extensions += 1;
				}
			}
			n -= 1;
		}
		f.other_extensions += n;
	}
	f.ok = true;
	(f, Some(pk))
}

pub struct Issued {
	pub pem: String,
	pub leaf_der: Vec<u8>,
	pub not_after: i64,
	pub not_before: i64,
}

/// Issue a leaf for `pubkey` with the given SANs, valid [now, now+lifetime] (virtual time), and
/// return the PEM chain of `chain_len` certificates (leaf first), "\n" line ends.
pub fn issue(
	pubkey: &PKey<Public>,
	dns: &[String],
	ips: &[String],
	now: i64,
	lifetime_s: i64,
	chain_len: u32,
	serial_no: u64,
) -> Result<Issued, String> {
	HIER.with(|h| {
		let chain_len = chain_len.max(1).min(4) as usize;
		// the leaf is signed by the lowest certificate of the served chain's parent
		let issuer_idx = chain_len - 1; // 0 = root signs the leaf directly
		let mut b = X509Builder::new().map_err(|e| e.to_string())?;
		b.set_version(2).map_err(|e| e.to_string())?;
		b.set_serial_number(&serial(0x10000 + serial_no))
			.map_err(|e| e.to_string())?;
		let cn = dns
			.first()
			.or(ips.first())
			.cloned()
			.unwrap_or_else(|| "leaf".into());
		let mut nb = X509NameBuilder::new().unwrap();
		// CN is limited to 64 characters by OpenSSL's string table
		let cn: String = cn.chars().take(60).collect();
		nb.append_entry_by_text("CN", &cn)
			.map_err(|e| e.to_string())?;
		b.set_subject_name(&nb.build()).map_err(|e| e.to_string())?;
		b.set_issuer_name(h.certs[issuer_idx].subject_name())
			.map_err(|e| e.to_string())?;
		b.set_pubkey(pubkey).map_err(|e| e.to_string())?;
		let not_before = now;
		let not_after = now + lifetime_s;
		let nb = Asn1Time::from_unix(not_before as _).map_err(|e| e.to_string())?;
		let na = Asn1Time::from_unix(not_after as _).map_err(|e| e.to_string())?;
		b.set_not_before(&nb).map_err(|e| e.to_string())?;
		b.set_not_after(&na).map_err(|e| e.to_string())?;
		b.append_extension(BasicConstraints::new().critical().build().unwrap())
			.map_err(|e| e.to_string())?;
		if !dns.is_empty() || !ips.is_empty() {
			let mut san = SubjectAlternativeName::new();
			for d in dns {
				san.dns(d);
			}
			for i in ips {
				san.ip(i);
			}
			let ext = san
				.build(&b.x509v3_context(Some(&h.certs[issuer_idx]), None))
				.map_err(|e| e.to_string())?;
			b.append_extension(ext).map_err(|e| e.to_string())?;
		}
		b.sign(&h.keys[issuer_idx], MessageDigest::null())
			.map_err(|e| e.to_string())?;
		let leaf = b.build();
		let mut pem = String::from_utf8(leaf.to_pem().map_err(|e| e.to_string())?).unwrap();
		// chain: leaf, then issuer_idx, issuer_idx-1, ... down to (but excluding) the root, unless
		// that leaves fewer than chain_len certificates, in which case the root is included.
		let mut idx = issuer_idx as i64;
		let mut served = 1;
		while served < chain_len && idx >= 0 {
			pem.push_str(&String::from_utf8(h.certs[idx as usize].to_pem().unwrap()).unwrap());
			idx -= 1;
			served += 1;
		}
		Ok(Issued {
			leaf_der: leaf.to_der().map_err(|e| e.to_string())?,
			pem,
			not_after,
			not_before,
		})
	})
}

/// A throw-away certificate for pre-seeded pairs (not issued by any simulated CA instance).
pub fn issue_for_private(
	key: &PKey<Private>,
	dns: &[String],
	ips: &[String],
	now: i64,
	lifetime_s: i64,
) -> Result<String, String> {
	let der = key.public_key_to_der().map_err(|e| e.to_string())?;
	let pk = PKey::public_key_from_der(&der).map_err(|e| e.to_string())?;
	issue(&pk, dns, ips, now, lifetime_s, 2, 7).map(|i| i.pem)
}
