// The model CA: a small, strict, sequential RFC 8555 server, one instance per configured
// endpoint.  It is the reference model the properties are judged against, so it is written from
// the RFCs (8555, 7515, 7517, 7518, 7638, 8037, 8737), not from acmed.  (DESIGN.md 4.2, App. A)
pub mod der;
pub mod issue;
pub mod keys;

use super::plan::{Fault, FaultKind, Knobs};
use super::prng::Streams;
use super::util::{b64u_decode, short_hash};
use keys::{Jwk, Jws};
use serde_json::{json, Value};
use std::collections::BTreeMap;

#[derive(Clone, Debug)]
pub struct Req {
	pub tx: u64,
	pub method: String,
	pub url: String,
	pub headers: Vec<(String, String)>,
	pub body: Vec<u8>,
}

#[derive(Clone, Debug, Default)]
pub struct Resp {
	pub status: u16,
	pub headers: Vec<(String, String)>,
	pub body: Vec<u8>,
}

pub enum Reply {
	Resp(Resp, u64 /* extra delay ms */),
	Err(String),
}

#[derive(Clone, Debug, PartialEq)]
pub enum NonceState {
	Fresh,
	Missing,
	Empty,
	NotIssued,
	Consumed { by_tx: u64 },
	Expired,
}

#[derive(Clone, Debug)]
pub struct PostRec {
	pub seq: u64,
	pub t: u128,
	pub tx: u64,
	pub url: String,
	pub class: String,
	pub order: Option<usize>,
	pub cert: Option<usize>,
	pub nonce: Option<String>,
	pub nonce_state: NonceState,
	pub alg: String,
	pub key_mode: String,
	pub kid: Option<String>,
	pub account: Option<usize>,
	pub thumb: Option<String>,
	pub key_kind: String,
	pub payload_hash: String,
	pub payload_len: usize,
	pub sig_ok: bool,
	pub sig_len: usize,
	pub short_component: bool,
	/// C04-relevant defects of this request (empty = a valid, fresh, correctly bound JWS)
	pub problems: Vec<String>,
	pub scripted: Option<String>,
	pub reply_status: u16,
	pub reply_type: Option<String>,
	pub reply_nonce: Option<String>,
	pub lost: bool,
}

#[derive(Clone, Debug)]
pub struct GetRec {
	pub seq: u64,
	pub t: u128,
	pub tx: u64,
	pub url: String,
	pub class: String,
	pub reply_status: u16,
}

#[derive(Clone, Debug)]
pub struct Account {
	pub id: usize,
	pub key: Jwk,
	pub contacts: Vec<String>,
	pub eab_kid: Option<String>,
	pub status: String,
	pub forgotten: bool,
	pub forgotten_at: Option<u128>,
	pub created_contacts: Vec<String>,
	pub created_tx: u64,
	/// history for the C11 monitor
	pub key_history: Vec<(u64, String)>, // (tx, thumbprint)
	pub contact_updates: Vec<(u64, Vec<String>)>,
}

#[derive(Clone, Debug)]
pub struct Order {
	pub id: usize,
	pub account: usize,
	pub identifiers: Vec<(String, String)>,
	pub authzs: Vec<usize>,
	pub status: String,
	pub polls_ready_left: u32,
	pub polls_valid_left: u32,
	pub finalize_csrs: Vec<(u64, String)>, // (tx, sha256 of csr der)
	pub csr: Option<issue::CsrFacts>,
	pub issued: Option<usize>,
	pub cert: Option<usize>,
	pub created_tx: u64,
	pub created_t: u128,
	pub downloads: Vec<(u64, bool)>, // (tx, reply lost or mutated)
}

#[derive(Clone, Debug)]
pub struct Authz {
	pub id: usize,
	pub order: usize,
	pub id_type: String,
	pub value: String,
	pub wildcard: bool,
	pub status: String,
	pub initial_status: String,
	pub challs: Vec<usize>,
	pub polls_left: u32,
	pub fetches: u32,
	pub validating: bool,
	pub fetch_txs: Vec<(u64, String)>, // (tx, status returned)
}

#[derive(Clone, Debug)]
pub struct Chall {
	pub id: usize,
	pub authz: usize,
	pub typ: String,
	pub token: String,
	pub status: String,
	pub posted: Vec<(u64, u64)>, // (tx, event seq)
}

#[derive(Clone, Debug)]
pub struct IssuedCert {
	pub order: usize,
	pub pem: String,
	pub leaf_pubkey_der: Vec<u8>,
	pub not_after: i64,
	pub not_before: i64,
	pub dns: Vec<String>,
	pub ips: Vec<String>,
	pub t: u128,
	pub chain_len: u32,
}

#[derive(Clone, Debug)]
pub struct NewAccountRec {
	pub tx: u64,
	pub seq: u64,
	pub thumb: String,
	pub created: bool,
	pub account: Option<usize>,
	pub eab_kid: Option<String>,
	pub eab_ok: Option<bool>,
	pub only_existing: bool,
	pub contacts: Vec<String>,
	pub tos: bool,
}

#[derive(Clone, Debug)]
pub struct KeyChangeRec {
	pub tx: u64,
	pub account: usize,
	pub old_thumb: String,
	pub new_thumb: String,
	pub authorised_by_record: bool,
	pub ok: bool,
	pub why: String,
}

pub struct CaEnv<'a> {
	pub mono: u128,
	pub wall: i64,
	pub seq: &'a mut u64,
	pub streams: &'a mut Streams,
	pub faults: &'a mut Vec<(Fault, u64)>,
	pub fired: &'a mut BTreeMap<String, u64>,
	pub counters: &'a mut BTreeMap<String, u64>,
}

#[derive(Default)]
pub struct Ca {
	pub idx: usize,
	pub host: String,
	pub knobs: Knobs,
	pub nonces: BTreeMap<String, (u128, Option<u64>)>, // nonce -> (issued at, consumed by tx)
	pub nonce_counter: u64,
	pub accounts: Vec<Account>,
	pub orders: Vec<Order>,
	pub authzs: Vec<Authz>,
	pub challs: Vec<Chall>,
	pub issued: Vec<IssuedCert>,
	pub posts: Vec<PostRec>,
	pub gets: Vec<GetRec>,
	pub new_accounts: Vec<NewAccountRec>,
	pub key_changes: Vec<KeyChangeRec>,
	pub does_not_exist: Vec<(u64, usize)>, // (tx, account) answers "accountDoesNotExist"
	pub eab_keys: BTreeMap<String, Vec<u8>>,
	/// expected identifier sets per certificate of the plan (type, value), oracle-computed
	pub cert_idents: Vec<Vec<(String, String)>>,
	pub post_count: u64,
	pub authz_counter: u64,
	pub validation_counter: u64,
}

fn problem(status: u16, typ: &str, detail: &str) -> Resp {
	let mut v = json!({ "status": status, "detail": detail });
	if !typ.is_empty() {
		v["type"] = json!(format!("urn:ietf:params:acme:error:{}", typ));
	}
	Resp {
		status,
		headers: vec![("Content-Type".into(), "application/problem+json".into())],
		body: serde_json::to_vec(&v).unwrap(),
	}
}

fn json_resp(status: u16, v: &Value) -> Resp {
	Resp {
		status,
		headers: vec![("Content-Type".into(), "application/json".into())],
		body: serde_json::to_vec(v).unwrap(),
	}
}

impl Ca {
	pub fn new(idx: usize, host: &str, knobs: Knobs) -> Ca {
		Ca {
			idx,
			host: host.to_string(),
			knobs,
			..Default::default()
		}
	}

	pub fn base(&self) -> String {
		format!("https://{}", self.host)
	}

	pub fn acct_url(&self, id: usize) -> String {
		format!("{}/acct/{}", self.base(), id)
	}

	fn new_nonce(&mut self, env: &mut CaEnv) -> String {
		self.nonce_counter += 1;
		let v = super::prng::mix(
			env.streams.seed,
			&format!("nonce.{}", self.idx),
			self.nonce_counter,
		);
		let n = format!("N{}-{:016x}_{}", self.idx, v, self.nonce_counter);
		self.nonces.insert(n.clone(), (env.mono, None));
		n
	}

	/// (class, object index) of a request path
	pub fn classify(&self, method: &str, url: &str) -> (String, Option<usize>) {
		let base = self.base();
		let path = if url.starts_with(&base) {
			&url[base.len()..]
		} else {
			""
		};
		let num = |p: &str| p.rsplit('/').next().and_then(|s| s.parse::<usize>().ok());
		let (c, o): (&str, Option<usize>) = match path {
			"/dir" => ("directory", None),
			"/new-nonce" => ("newNonce", None),
			"/new-acct" => ("newAccount", None),
			"/new-order" => ("newOrder", None),
			"/key-change" => ("keyChange", None),
			"/revoke" => ("revoke", None),
			p if p.starts_with("/acct/") => ("account", num(p)),
			p if p.starts_with("/orders/") => ("orders", num(p)),
			p if p.starts_with("/order/") => {
				let o = num(p);
				let fin = o
					.and_then(|i| self.orders.get(i))
					.map(|o| !o.finalize_csrs.is_empty())
					.unwrap_or(false);
				(
					if fin {
						"orderPollValid"
					} else {
						"orderPollReady"
					},
					o,
				)
			}
			p if p.starts_with("/authz/") => {
				let a = num(p);
				let seen = a
					.and_then(|i| self.authzs.get(i))
					.map(|a| a.fetches > 0)
					.unwrap_or(false);
				(if seen { "authzPoll" } else { "authz" }, a)
			}
			p if p.starts_with("/chall/") => ("challenge", num(p)),
			p if p.starts_with("/finalize/") => ("finalize", num(p)),
			p if p.starts_with("/cert/") => ("certificate", num(p)),
			_ => ("unknown", None),
		};
		let _ = method;
		(c.to_string(), o)
	}

	fn order_of(&self, class: &str, obj: Option<usize>) -> Option<usize> {
		let o = obj?;
		match class {
			"orderPollReady" | "orderPollValid" | "finalize" | "certificate" => {
				if o < self.orders.len() {
					Some(o)
				} else {
					None
				}
			}
			"authz" | "authzPoll" => self.authzs.get(o).map(|a| a.order),
			"challenge" => self
				.challs
				.get(o)
				.and_then(|c| self.authzs.get(c.authz))
				.map(|a| a.order),
			_ => None,
		}
	}

	pub fn cert_of_idents(&self, ids: &[(String, String)]) -> Option<usize> {
		let mut a: Vec<_> = ids.to_vec();
		a.sort();
		for (i, exp) in self.cert_idents.iter().enumerate() {
			let mut b = exp.clone();
			b.sort();
			if a == b {
				return Some(i);
			}
		}
		None
	}

	fn match_fault(
		&mut self,
		env: &mut CaEnv,
		class: &str,
		cert: Option<usize>,
	) -> Option<(FaultKind, String)> {
		let mut hit = None;
		for (f, seen) in env.faults.iter_mut() {
			if f.site != "net" || f.ca != self.idx {
				continue;
			}
			if !f.class.is_empty() && f.class != class {
				continue;
			}
			if let Some(c) = f.cert {
				if cert != Some(c) {
					continue;
				}
			}
			*seen += 1;
			let first = f.nth.max(1);
			let count = f.count.max(1);
			if *seen >= first && *seen < first.saturating_add(count) && hit.is_none() {
				hit = Some((f.kind.clone(), fault_name(&f.kind)));
			}
		}
		if let Some((_, name)) = &hit {
			*env.fired.entry(format!("net.{}", name)).or_insert(0) += 1;
		}
		hit
	}

	pub fn handle(&mut self, req: &Req, env: &mut CaEnv) -> (Reply, String, Option<String>) {
		let (class, obj) = self.classify(&req.method, &req.url);
		let order = self.order_of(&class, obj);
		let mut cert = order.and_then(|o| self.orders[o].cert);
		if class == "newOrder" {
			cert = self.peek_new_order_cert(&req.body);
		}
		let fault = self.match_fault(env, &class, cert);
		let fname = fault.as_ref().map(|f| f.1.clone());
		if let Some((FaultKind::Refuse, _)) = &fault {
			return (
				Reply::Err("error sending request: connection refused (simulated)".into()),
				class,
				fname,
			);
		}
		let is_post = req.method == "POST";
		let mut delay = 0u64;
		let mut resp = if is_post {
			self.post_count += 1;
			let (mut rec, jws, acct, key) = self.verify_post(req, &class, order, cert, env);
			let scripted = match &fault {
				Some((
					FaultKind::Acme {
						typ,
						status,
						detail,
					},
					n,
				)) => {
					rec.scripted = Some(n.clone());
					Some(problem(
						*status,
						typ,
						detail.as_deref().unwrap_or("scripted error"),
					))
				}
				Some((
					FaultKind::Http {
						status,
						body,
						content_type,
					},
					n,
				)) => {
					rec.scripted = Some(n.clone());
					let mut h = vec![];
					if !content_type.is_empty() {
						h.push(("Content-Type".to_string(), content_type.clone()));
					}
					Some(Resp {
						status: *status,
						headers: h,
						body: body.clone().into_bytes(),
					})
				}
				_ => None,
			};
			let knob_bad_nonce = scripted.is_none()
				&& rec.problems.is_empty()
				&& self.knobs.bad_nonce_every > 0
				&& self.post_count % self.knobs.bad_nonce_every == 0;
			let mut r = if let Some(r) = scripted {
				r
			} else if knob_bad_nonce {
				*env.counters
					.entry("probe.knob_bad_nonce".into())
					.or_insert(0) += 1;
				rec.scripted = Some("knob_bad_nonce".into());
				problem(400, "badNonce", "nonce refused (CA behaviour knob)")
			} else if let Some(r) = self.refusal(&rec) {
				r
			} else {
				match (jws, key) {
					(Some(jws), Some(key)) => {
						self.process(req, &class, obj, &jws, acct, &key, &mut rec, env)
					}
					_ => problem(400, "malformed", "unusable request"),
				}
			};
			let n = self.new_nonce(env);
			rec.reply_nonce = Some(n.clone());
			r.headers.push(("Replay-Nonce".into(), n));
			r.headers.push(("Cache-Control".into(), "no-store".into()));
			rec.reply_status = r.status;
			rec.reply_type = problem_type(&r);
			self.posts.push(rec);
			r
		} else {
			let mut r = match &fault {
				Some((
					FaultKind::Acme {
						typ,
						status,
						detail,
					},
					_,
				)) => problem(*status, typ, detail.as_deref().unwrap_or("scripted error")),
				Some((
					FaultKind::Http {
						status,
						body,
						content_type,
					},
					_,
				)) => Resp {
					status: *status,
					headers: if content_type.is_empty() {
						vec![]
					} else {
						vec![("Content-Type".into(), content_type.clone())]
					},
					body: body.clone().into_bytes(),
				},
				_ => self.get(req, &class, env),
			};
			if class == "newNonce" || self.knobs.nonce_on_get {
				if r.status < 300 {
					let n = self.new_nonce(env);
					r.headers.push(("Replay-Nonce".into(), n));
				}
			}
			*env.seq += 0;
			self.gets.push(GetRec {
				seq: *env.seq,
				t: env.mono,
				tx: req.tx,
				url: req.url.clone(),
				class: class.clone(),
				reply_status: r.status,
			});
			r
		};
		// post-processing faults
		match &fault {
			Some((FaultKind::ResetAfter, _)) => {
				if let Some(p) = self.posts.last_mut() {
					if p.tx == req.tx {
						p.lost = true;
					}
				}
				if class == "certificate" {
					if let Some(o) = order {
						if let Some(d) = self.orders[o].downloads.last_mut() {
							d.1 = true;
						}
					}
				}
				return (
					Reply::Err(
						"error sending request: connection reset by peer (simulated)".into(),
					),
					class,
					fname,
				);
			}
			Some((FaultKind::Delay { ms }, _)) => delay = *ms,
			Some((k, _)) => {
				let mutated = mutate(&mut resp, k, self, env);
				if mutated && class == "certificate" {
					if let Some(o) = order {
						if let Some(d) = self.orders[o].downloads.last_mut() {
							d.1 = true;
						}
					}
				}
			}
			None => {}
		}
		(Reply::Resp(resp, delay), class, fname)
	}

	fn peek_new_order_cert(&self, body: &[u8]) -> Option<usize> {
		let v: Value = serde_json::from_slice(body).ok()?;
		let p = b64u_decode(v.get("payload")?.as_str()?).ok()?;
		let p: Value = serde_json::from_slice(&p).ok()?;
		let ids = parse_identifiers(&p)?;
		self.cert_of_idents(&ids)
	}

	fn get(&mut self, req: &Req, class: &str, _env: &mut CaEnv) -> Resp {
		match class {
			"directory" => {
				let b = self.base();
				let mut d = json!({
					"newNonce": format!("{}/new-nonce", b),
					"newAccount": format!("{}/new-acct", b),
					"newOrder": format!("{}/new-order", b),
					"revokeCert": format!("{}/revoke", b),
					"keyChange": format!("{}/key-change", b),
				});
				if self.knobs.meta || self.knobs.eab_required {
					d["meta"] = json!({
						"termsOfService": format!("{}/tos.pdf", b),
						"website": b,
						"caaIdentities": [self.host],
						"externalAccountRequired": self.knobs.eab_required,
					});
				}
				json_resp(200, &d)
			}
			"newNonce" => Resp {
				status: if req.method == "HEAD" { 200 } else { 204 },
				headers: vec![("Cache-Control".into(), "no-store".into())],
				body: vec![],
			},
			_ => problem(
				405,
				"malformed",
				"GET is not allowed on this resource (POST-as-GET required)",
			),
		}
	}

	/// Strict verification of a POST; always produces the record the C04 monitor reads.
	fn verify_post(
		&mut self,
		req: &Req,
		class: &str,
		order: Option<usize>,
		cert: Option<usize>,
		env: &mut CaEnv,
	) -> (PostRec, Option<Jws>, Option<usize>, Option<Jwk>) {
		*env.seq += 0;
		let mut rec = PostRec {
			seq: *env.seq,
			t: env.mono,
			tx: req.tx,
			url: req.url.clone(),
			class: class.to_string(),
			order,
			cert,
			nonce: None,
			nonce_state: NonceState::Missing,
			alg: String::new(),
			key_mode: "none".into(),
			kid: None,
			account: None,
			thumb: None,
			key_kind: String::new(),
			payload_hash: String::new(),
			payload_len: 0,
			sig_ok: false,
			sig_len: 0,
			short_component: false,
			problems: vec![],
			scripted: None,
			reply_status: 0,
			reply_type: None,
			reply_nonce: None,
			lost: false,
		};
		let ct = req
			.headers
			.iter()
			.find(|(k, _)| k.eq_ignore_ascii_case("content-type"))
			.map(|(_, v)| v.as_str())
			.unwrap_or("");
		if ct != "application/jose+json" {
			rec.problems.push(format!("content_type:{}", ct));
		}
		let body: Value = match serde_json::from_slice(&req.body) {
			Ok(v) => v,
			Err(e) => {
				rec.problems.push(format!("body_not_json:{}", e));
				return (rec, None, None, None);
			}
		};
		let jws = match keys::parse_jws(&body) {
			Ok(j) => j,
			Err(e) => {
				rec.problems.push(format!("jws_shape:{}", e));
				return (rec, None, None, None);
			}
		};
		rec.payload_hash = short_hash(&jws.payload);
		rec.payload_len = jws.payload.len();
		rec.sig_len = jws.signature.len();
		let h = &jws.header;
		for k in h.as_object().unwrap().keys() {
			if !["alg", "nonce", "url", "jwk", "kid"].contains(&k.as_str()) {
				rec.problems
					.push(format!("unexpected_protected_member:{}", k));
			}
		}
		rec.alg = h
			.get("alg")
			.and_then(|a| a.as_str())
			.unwrap_or("")
			.to_string();
		if rec.alg.is_empty() || rec.alg == "none" || rec.alg.starts_with("HS") {
			rec.problems.push(format!("alg_unacceptable:{}", rec.alg));
		}
		match h.get("url").and_then(|u| u.as_str()) {
			Some(u) if u == req.url => {}
			Some(u) => rec.problems.push(format!("url_mismatch:{}", u)),
			None => rec.problems.push("url_missing".into()),
		}
		// nonce
		match h.get("nonce") {
			None => rec.nonce_state = NonceState::Missing,
			Some(n) => match n.as_str() {
				None => rec.nonce_state = NonceState::Missing,
				Some("") => {
					rec.nonce = Some(String::new());
					rec.nonce_state = NonceState::Empty;
				}
				Some(n) => {
					rec.nonce = Some(n.to_string());
					rec.nonce_state = match self.nonces.get_mut(n) {
						None => NonceState::NotIssued,
						Some((_, Some(by))) => NonceState::Consumed { by_tx: *by },
						Some((at, c)) => {
							let expired = match self.knobs.nonce_ttl_s {
								Some(ttl) => {
									env.mono.saturating_sub(*at) > (ttl as u128) * 1_000_000_000
								}
								None => false,
							};
							*c = Some(req.tx);
							if expired {
								NonceState::Expired
							} else {
								NonceState::Fresh
							}
						}
					};
				}
			},
		}
		match &rec.nonce_state {
			NonceState::Fresh | NonceState::Expired => {}
			s => rec.problems.push(format!("nonce:{:?}", s)),
		}
		// key
		let has_jwk = h.get("jwk").is_some();
		let has_kid = h.get("kid").is_some();
		rec.key_mode = match (has_jwk, has_kid) {
			(true, true) => "both",
			(true, false) => "jwk",
			(false, true) => "kid",
			_ => "none",
		}
		.to_string();
		rec.kid = h.get("kid").and_then(|k| k.as_str()).map(|s| s.to_string());
		let want_jwk = class == "newAccount";
		if (want_jwk && rec.key_mode != "jwk") || (!want_jwk && rec.key_mode != "kid") {
			rec.problems
				.push(format!("jwk_kid_discipline:{}_on_{}", rec.key_mode, class));
		}
		let mut acct = None;
		let mut key: Option<Jwk> = None;
		if has_jwk {
			match keys::parse_jwk(&h["jwk"]) {
				Ok(k) => key = Some(k),
				Err(e) => rec.problems.push(format!("jwk_encoding:{}", e)),
			}
		}
		if let Some(kid) = &rec.kid {
			let prefix = format!("{}/acct/", self.base());
			let id = if kid.starts_with(&prefix) {
				kid[prefix.len()..].parse::<usize>().ok()
			} else {
				None
			};
			match id.and_then(|i| self.accounts.get(i)) {
				Some(a) => {
					acct = Some(a.id);
					if !has_jwk {
						key = Some(a.key.clone());
					}
				}
				None => rec.problems.push(format!("kid_not_an_account_url:{}", kid)),
			}
		}
		rec.account = acct;
		if let Some(k) = &key {
			rec.thumb = Some(k.thumb.clone());
			rec.key_kind = k.kind.clone();
			if !rec.alg.is_empty() && !keys::alg_matches(&rec.alg, k) {
				rec.problems
					.push(format!("alg_key_mismatch:{}_with_{}", rec.alg, k.kind));
			}
			let info = keys::verify(&rec.alg, k, &jws.signing_input(), &jws.signature);
			rec.sig_ok = info.ok;
			rec.short_component = info.short_component;
			if !info.ok {
				rec.problems.push(format!(
					"bad_signature:{}",
					info.problem.unwrap_or_default()
				));
			}
		}
		(rec, Some(jws), acct, key)
	}

	/// The RFC's answer to a request that failed verification (None = request is acceptable).
	fn refusal(&mut self, rec: &PostRec) -> Option<Resp> {
		if rec.problems.is_empty() && rec.nonce_state == NonceState::Fresh {
			return None;
		}
		if rec.nonce_state != NonceState::Fresh {
			return Some(problem(
				400,
				"badNonce",
				&format!("unacceptable nonce ({:?})", rec.nonce_state),
			));
		}
		let p = rec.problems.join("; ");
		let first = rec.problems[0].split(':').next().unwrap_or("");
		Some(match first {
			"bad_signature" => {
				if self.knobs.bad_sig_answer == "malformed" {
					problem(400, "malformed", &format!("JWS verification error: {}", p))
				} else {
					problem(
						401,
						"unauthorized",
						&format!("JWS verification error: {}", p),
					)
				}
			}
			"url_mismatch" | "url_missing" => problem(401, "unauthorized", &p),
			"alg_unacceptable" | "alg_key_mismatch" => problem(400, "badSignatureAlgorithm", &p),
			"jwk_encoding" => problem(400, "badPublicKey", &p),
			"content_type" => problem(415, "malformed", &p),
			"kid_not_an_account_url" => problem(400, "accountDoesNotExist", &p),
			_ => problem(400, "malformed", &p),
		})
	}

	#[allow(clippy::too_many_arguments)]
	fn process(
		&mut self,
		req: &Req,
		class: &str,
		obj: Option<usize>,
		jws: &Jws,
		acct: Option<usize>,
		key: &Jwk,
		rec: &mut PostRec,
		env: &mut CaEnv,
	) -> Resp {
		// account-bound requests: the account must exist and be valid
		if class != "newAccount" {
			let a = match acct {
				Some(a) => a,
				None => return problem(400, "accountDoesNotExist", "no such account"),
			};
			if self.accounts[a].forgotten {
				self.does_not_exist.push((req.tx, a));
				return problem(
					400,
					"accountDoesNotExist",
					"account does not exist (forgotten by the CA)",
				);
			}
			if self.accounts[a].status != "valid" {
				return problem(403, "unauthorized", "account is not valid");
			}
		}
		let payload_json: Option<Value> = if jws.payload.is_empty() {
			None
		} else {
			serde_json::from_slice(&jws.payload).ok()
		};
		match class {
			"newAccount" => self.new_account(req, key, payload_json, rec, env),
			"account" => {
				let a = acct.unwrap();
				if obj != Some(a) {
					return problem(403, "unauthorized", "account URL does not match kid");
				}
				if let Some(p) = &payload_json {
					if let Some(c) = p.get("contact") {
						let cts: Option<Vec<String>> = c.as_array().map(|v| {
							v.iter()
								.filter_map(|x| x.as_str().map(|s| s.to_string()))
								.collect()
						});
						match cts {
							Some(cts) => {
								self.accounts[a].contacts = cts.clone();
								self.accounts[a].contact_updates.push((req.tx, cts));
							}
							None => {
								return problem(
									400,
									"malformed",
									"contact must be an array of strings",
								)
							}
						}
					}
					if p.get("status").and_then(|s| s.as_str()) == Some("deactivated") {
						self.accounts[a].status = "deactivated".into();
					}
				} else if !jws.payload.is_empty() {
					return problem(400, "malformed", "payload is not JSON");
				}
				json_resp(200, &self.account_json(a))
			}
			"keyChange" => self.key_change(req, jws, acct.unwrap(), payload_json),
			"newOrder" => self.new_order(req, acct.unwrap(), payload_json, rec, env),
			"orders" => json_resp(200, &json!({ "orders": [] })),
			"authz" | "authzPoll" => {
				if !jws.payload.is_empty() {
					return problem(400, "malformed", "POST-as-GET requires an empty payload");
				}
				match obj.filter(|i| *i < self.authzs.len()) {
					Some(i) => {
						if self.orders[self.authzs[i].order].account != acct.unwrap() {
							return problem(
								403,
								"unauthorized",
								"authorization belongs to another account",
							);
						}
						self.poll_authz(i, req.tx);
						json_resp(200, &self.authz_json(i))
					}
					None => problem(404, "malformed", "no such authorization"),
				}
			}
			"challenge" => match obj.filter(|i| *i < self.challs.len()) {
				Some(i) => {
					let az = self.challs[i].authz;
					if self.orders[self.authzs[az].order].account != acct.unwrap() {
						return problem(
							403,
							"unauthorized",
							"challenge belongs to another account",
						);
					}
					match &payload_json {
						Some(Value::Object(_)) => {}
						_ => {
							return problem(
								400,
								"malformed",
								"challenge response payload must be a JSON object",
							)
						}
					}
					self.challs[i].posted.push((req.tx, *env.seq));
					if self.authzs[az].status == "pending" && !self.authzs[az].validating {
						if self.challs[i].status != "valid" {
							self.challs[i].status = "processing".into();
						}
						self.authzs[az].validating = true;
						self.authzs[az].polls_left = self.knobs.polls_authz;
					}
					let mut r = json_resp(200, &self.chall_json(i));
					r.headers.push((
						"Link".into(),
						format!("<{}/authz/{}>;rel=\"up\"", self.base(), az),
					));
					r
				}
				None => problem(404, "malformed", "no such challenge"),
			},
			"orderPollReady" | "orderPollValid" => {
				if !jws.payload.is_empty() {
					return problem(400, "malformed", "POST-as-GET requires an empty payload");
				}
				match obj.filter(|i| *i < self.orders.len()) {
					Some(i) => {
						if self.orders[i].account != acct.unwrap() {
							return problem(
								403,
								"unauthorized",
								"order belongs to another account",
							);
						}
						self.poll_order(i, env);
						json_resp(200, &self.order_json(i))
					}
					None => problem(404, "malformed", "no such order"),
				}
			}
			"finalize" => match obj.filter(|i| *i < self.orders.len()) {
				Some(i) => {
					if self.orders[i].account != acct.unwrap() {
						return problem(403, "unauthorized", "order belongs to another account");
					}
					self.finalize(i, req, payload_json, env)
				}
				None => problem(404, "malformed", "no such order"),
			},
			"certificate" => {
				if !jws.payload.is_empty() {
					return problem(400, "malformed", "POST-as-GET requires an empty payload");
				}
				match obj.filter(|i| *i < self.orders.len()) {
					Some(i) => {
						if self.orders[i].account != acct.unwrap() {
							return problem(
								403,
								"unauthorized",
								"certificate belongs to another account",
							);
						}
						match self.orders[i].issued {
							Some(c) => {
								self.orders[i].downloads.push((req.tx, false));
								Resp {
									status: 200,
									headers: vec![(
										"Content-Type".into(),
										"application/pem-certificate-chain".into(),
									)],
									body: self.issued[c].pem.clone().into_bytes(),
								}
							}
							None => problem(404, "malformed", "no certificate for this order"),
						}
					}
					None => problem(404, "malformed", "no such certificate"),
				}
			}
			_ => problem(404, "malformed", "no such resource"),
		}
	}

	fn account_json(&self, a: usize) -> Value {
		let acc = &self.accounts[a];
		let mut v = json!({
			"status": acc.status,
			"contact": acc.contacts,
			"termsOfServiceAgreed": true,
		});
		if self.knobs.orders_url {
			v["orders"] = json!(format!("{}/orders/{}", self.base(), a));
		}
		v
	}

	fn new_account(
		&mut self,
		req: &Req,
		key: &Jwk,
		payload: Option<Value>,
		rec: &mut PostRec,
		env: &mut CaEnv,
	) -> Resp {
		let p = match payload {
			Some(p) if p.is_object() => p,
			_ => return problem(400, "malformed", "newAccount payload must be a JSON object"),
		};
		let only_existing = p
			.get("onlyReturnExisting")
			.and_then(|b| b.as_bool())
			.unwrap_or(false);
		let tos = p
			.get("termsOfServiceAgreed")
			.and_then(|b| b.as_bool())
			.unwrap_or(false);
		let contacts: Vec<String> = p
			.get("contact")
			.and_then(|c| c.as_array())
			.map(|v| {
				v.iter()
					.filter_map(|x| x.as_str().map(|s| s.to_string()))
					.collect()
			})
			.unwrap_or_default();
		let mut nrec = NewAccountRec {
			tx: req.tx,
			seq: *env.seq,
			thumb: key.thumb.clone(),
			created: false,
			account: None,
			eab_kid: None,
			eab_ok: None,
			only_existing,
			contacts: contacts.clone(),
			tos,
		};
		// external account binding (RFC 8555 7.3.4)
		let mut eab_kid = None;
		if let Some(eab) = p.get("externalAccountBinding") {
			let ok = (|| -> Result<String, String> {
				let j = keys::parse_jws(eab)?;
				let h = &j.header;
				let alg = h
					.get("alg")
					.and_then(|a| a.as_str())
					.ok_or("eab alg missing")?;
				let kid = h
					.get("kid")
					.and_then(|a| a.as_str())
					.ok_or("eab kid missing")?;
				if h.get("nonce").is_some() {
					return Err("eab must not carry a nonce".into());
				}
				if h.get("url").and_then(|u| u.as_str()) != Some(req.url.as_str()) {
					return Err("eab url must equal the newAccount url".into());
				}
				let inner: Value = serde_json::from_slice(&j.payload).map_err(|e| e.to_string())?;
				let outer = rec_outer_jwk(req);
				if Some(&inner) != outer.as_ref() {
					return Err("eab payload is not the outer jwk".into());
				}
				let mac = self
					.eab_keys
					.get(kid)
					.ok_or_else(|| format!("unknown eab kid {}", kid))?;
				if !keys::hmac_ok(alg, mac, &j.signing_input(), &j.signature) {
					return Err("eab MAC does not verify".into());
				}
				Ok(kid.to_string())
			})();
			match ok {
				Ok(kid) => {
					nrec.eab_ok = Some(true);
					nrec.eab_kid = Some(kid.clone());
					eab_kid = Some(kid);
				}
				Err(e) => {
					nrec.eab_ok = Some(false);
					rec.problems.push(format!("eab:{}", e));
					self.new_accounts.push(nrec);
					return problem(400, "malformed", &format!("externalAccountBinding: {}", e));
				}
			}
		} else if self.knobs.eab_required {
			self.new_accounts.push(nrec);
			return problem(
				400,
				"externalAccountRequired",
				"this CA requires an external account binding",
			);
		}
		let existing = self
			.accounts
			.iter()
			.position(|a| a.key.thumb == key.thumb && !a.forgotten && a.status == "valid");
		let (status, id) = match existing {
			Some(id) => (200, id),
			None => {
				if only_existing {
					self.new_accounts.push(nrec);
					return problem(400, "accountDoesNotExist", "no account for this key");
				}
				if !tos {
					self.new_accounts.push(nrec);
					return problem(403, "userActionRequired", "terms of service must be agreed");
				}
				let id = self.accounts.len();
				self.accounts.push(Account {
					id,
					key: key.clone(),
					contacts: contacts.clone(),
					created_contacts: contacts,
					eab_kid: eab_kid.clone(),
					status: "valid".into(),
					forgotten: false,
					forgotten_at: None,
					created_tx: req.tx,
					key_history: vec![(req.tx, key.thumb.clone())],
					contact_updates: vec![],
				});
				nrec.created = true;
				(201, id)
			}
		};
		nrec.account = Some(id);
		rec.account = Some(id);
		self.new_accounts.push(nrec);
		let mut r = json_resp(status, &self.account_json(id));
		r.headers.push(("Location".into(), self.acct_url(id)));
		r
	}

	fn key_change(&mut self, req: &Req, outer: &Jws, a: usize, payload: Option<Value>) -> Resp {
		let old_thumb = self.accounts[a].key.thumb.clone();
		let mut kc = KeyChangeRec {
			tx: req.tx,
			account: a,
			old_thumb: old_thumb.clone(),
			new_thumb: String::new(),
			authorised_by_record: true, // the outer signature verified under the key on record
			ok: false,
			why: String::new(),
		};
		let res = (|| -> Result<Jwk, (u16, &'static str, String)> {
			let bad = |s: String| (400u16, "malformed", s);
			let inner_v = payload.ok_or_else(|| bad("keyChange payload must be a JWS".into()))?;
			let inner = keys::parse_jws(&inner_v).map_err(|e| bad(format!("inner JWS: {}", e)))?;
			let h = &inner.header;
			if h.get("nonce").is_some() {
				return Err(bad("inner JWS must not carry a nonce".into()));
			}
			if h.get("kid").is_some() {
				return Err(bad("inner JWS must carry jwk, not kid".into()));
			}
			if h.get("url").and_then(|u| u.as_str())
				!= outer.header.get("url").and_then(|u| u.as_str())
			{
				return Err(bad("inner url differs from outer url".into()));
			}
			let jwk = h
				.get("jwk")
				.ok_or_else(|| bad("inner JWS has no jwk".into()))?;
			let new_key = keys::parse_jwk(jwk).map_err(|e| (400, "badPublicKey", e))?;
			let alg = h.get("alg").and_then(|a| a.as_str()).unwrap_or("");
			if !keys::alg_matches(alg, &new_key) {
				return Err((
					400,
					"badSignatureAlgorithm",
					format!("inner alg {} does not match the new key", alg),
				));
			}
			let v = keys::verify(alg, &new_key, &inner.signing_input(), &inner.signature);
			if !v.ok {
				return Err(bad(format!(
					"inner signature: {}",
					v.problem.unwrap_or_default()
				)));
			}
			let p: Value = serde_json::from_slice(&inner.payload)
				.map_err(|e| bad(format!("inner payload: {}", e)))?;
			if p.get("account").and_then(|x| x.as_str()) != Some(self.acct_url(a).as_str()) {
				return Err(bad("inner account does not match the outer kid".into()));
			}
			let ok = p
				.get("oldKey")
				.ok_or_else(|| bad("oldKey missing".into()))?;
			let old = keys::parse_jwk(ok).map_err(|e| bad(format!("oldKey: {}", e)))?;
			if old.thumb != self.accounts[a].key.thumb {
				return Err(bad("oldKey is not the account's current key".into()));
			}
			if self
				.accounts
				.iter()
				.any(|x| x.key.thumb == new_key.thumb && !x.forgotten)
			{
				return Err((
					409,
					"malformed",
					"new key is already in use by an account".into(),
				));
			}
			Ok(new_key)
		})();
		match res {
			Ok(k) => {
				kc.new_thumb = k.thumb.clone();
				kc.ok = true;
				self.accounts[a].key_history.push((req.tx, k.thumb.clone()));
				self.accounts[a].key = k;
				self.key_changes.push(kc);
				json_resp(200, &self.account_json(a))
			}
			Err((st, ty, why)) => {
				kc.why = why.clone();
				self.key_changes.push(kc);
				problem(st, ty, &why)
			}
		}
	}

	fn new_order(
		&mut self,
		req: &Req,
		a: usize,
		payload: Option<Value>,
		_rec: &mut PostRec,
		env: &mut CaEnv,
	) -> Resp {
		let p = match payload {
			Some(p) => p,
			None => return problem(400, "malformed", "newOrder payload must be JSON"),
		};
		let ids = match parse_identifiers(&p) {
			Some(i) if !i.is_empty() => i,
			_ => return problem(400, "malformed", "identifiers missing or ill-formed"),
		};
		for (t, v) in &ids {
			let ok = match t.as_str() {
				"dns" => {
					!v.is_empty() && v.is_ascii() && !v.chars().any(|c| c.is_ascii_uppercase())
				}
				"ip" => v.parse::<std::net::IpAddr>().is_ok(),
				_ => false,
			};
			if !ok {
				return problem(
					400,
					"rejectedIdentifier",
					&format!("identifier {}:{} is not acceptable", t, v),
				);
			}
		}
		let oid = self.orders.len();
		let cert = self.cert_of_idents(&ids);
		// authorizations: one per identifier, order per knob
		let mut idxs: Vec<usize> = (0..ids.len()).collect();
		match self.knobs.authz_order.as_str() {
			"reversed" => idxs.reverse(),
			"shuffled" => {
				let mut r = super::prng::Rng::new(env.streams.draw("ca.authz_shuffle"));
				r.shuffle(&mut idxs);
			}
			_ => {}
		}
		let mut authz_ids = vec![];
		for (pos, i) in idxs.iter().enumerate() {
			let (t, v) = &ids[*i];
			let wildcard = t == "dns" && v.starts_with("*.");
			let value = if wildcard {
				v[2..].to_string()
			} else {
				v.clone()
			};
			let aid = self.authzs.len();
			let st = if self.knobs.authz_status.is_empty() {
				String::new()
			} else {
				self.knobs.authz_status
					[(self.authz_counter as usize + pos) % self.knobs.authz_status.len()]
				.clone()
			};
			let status = if st.is_empty() {
				"pending".to_string()
			} else {
				st
			};
			// challenges offered
			let mut types: Vec<String> = self.knobs.offer.clone();
			if wildcard && !self.knobs.wildcard_any {
				types.retain(|t| t == "dns-01");
			}
			if t == "ip" {
				types.retain(|t| t != "dns-01");
			}
			match self.knobs.chall_order.as_str() {
				"reversed" => types.reverse(),
				"shuffled" => {
					let mut r = super::prng::Rng::new(env.streams.draw("ca.chall_shuffle"));
					r.shuffle(&mut types);
				}
				_ => {}
			}
			if self.knobs.extra_unknown_chall {
				types.insert(0, "quantum-01".into());
			}
			let mut challs = vec![];
			for ty in types {
				let cid = self.challs.len();
				let tok =
					super::prng::mix(env.streams.seed, &format!("token.{}", self.idx), cid as u64);
				let tok2 = super::prng::mix(
					env.streams.seed,
					&format!("token2.{}", self.idx),
					cid as u64,
				);
				// 128+ bits of base64url alphabet incl. '-' and '_' now and then
				let token = super::util::b64u(&[tok.to_be_bytes(), tok2.to_be_bytes()].concat());
				self.challs.push(Chall {
					id: cid,
					authz: aid,
					typ: ty,
					token,
					status: if status == "valid" {
						"valid".into()
					} else {
						let k = &self.knobs.chall_status;
						match k.get(cid % k.len().max(1)).map(|s| s.as_str()) {
							Some("processing") => "processing".into(),
							Some("valid") => "valid".into(),
							_ => "pending".into(),
						}
					},
					posted: vec![],
				});
				challs.push(cid);
			}
			self.authzs.push(Authz {
				id: aid,
				order: oid,
				id_type: t.clone(),
				value,
				wildcard,
				status: status.clone(),
				initial_status: status,
				challs,
				polls_left: 0,
				fetches: 0,
				validating: false,
				fetch_txs: vec![],
			});
			authz_ids.push(aid);
		}
		self.authz_counter += ids.len() as u64;
		self.orders.push(Order {
			id: oid,
			account: a,
			identifiers: ids,
			authzs: authz_ids,
			status: "pending".into(),
			polls_ready_left: self.knobs.polls_ready,
			polls_valid_left: self.knobs.polls_valid,
			finalize_csrs: vec![],
			csr: None,
			issued: None,
			cert,
			created_tx: req.tx,
			created_t: env.mono,
			downloads: vec![],
		});
		self.refresh_order(oid, false);
		let mut r = json_resp(201, &self.order_json(oid));
		r.headers
			.push(("Location".into(), format!("{}/order/{}", self.base(), oid)));
		r
	}

	fn poll_authz(&mut self, i: usize, tx: u64) {
		let validation = &self.knobs.validation;
		let az = &mut self.authzs[i];
		az.fetches += 1;
		if az.validating && az.status == "pending" {
			if az.polls_left > 0 {
				az.polls_left -= 1;
			} else {
				let outcome = if validation.is_empty() {
					"valid".to_string()
				} else {
					validation[(self.validation_counter as usize) % validation.len()].clone()
				};
				self.validation_counter += 1;
				az.status = outcome.clone();
				az.validating = false;
				for c in az.challs.clone() {
					if self.challs[c].status == "processing" {
						self.challs[c].status = outcome.clone();
					}
				}
			}
		}
		let st = self.authzs[i].status.clone();
		self.authzs[i].fetch_txs.push((tx, st));
		let o = self.authzs[i].order;
		self.refresh_order(o, false);
	}

	/// recompute pending -> ready/invalid; `polled` consumes one of the "stay pending" polls
	fn refresh_order(&mut self, o: usize, polled: bool) {
		if self.orders[o].status != "pending" {
			return;
		}
		let all_valid = self.orders[o]
			.authzs
			.iter()
			.all(|a| self.authzs[*a].status == "valid");
		let any_bad = self.orders[o]
			.authzs
			.iter()
			.any(|a| !["valid", "pending"].contains(&self.authzs[*a].status.as_str()));
		if any_bad {
			self.orders[o].status = "invalid".into();
		} else if all_valid {
			if self.orders[o].polls_ready_left > 0 {
				if polled {
					self.orders[o].polls_ready_left -= 1;
				}
			} else {
				self.orders[o].status = "ready".into();
			}
		}
	}

	fn poll_order(&mut self, o: usize, _env: &mut CaEnv) {
		self.refresh_order(o, true);
		if self.orders[o].status == "processing" {
			if self.orders[o].polls_valid_left > 0 {
				self.orders[o].polls_valid_left -= 1;
			} else {
				self.orders[o].status = "valid".into();
			}
		}
	}

	fn finalize(&mut self, o: usize, req: &Req, payload: Option<Value>, env: &mut CaEnv) -> Resp {
		// an order whose authorizations are all valid is ready for the CA even if the client has
		// not yet been shown "ready" (the stay-pending knob only affects what polls display)
		if self.orders[o].status == "pending" {
			let all_valid = self.orders[o]
				.authzs
				.iter()
				.all(|a| self.authzs[*a].status == "valid");
			if all_valid {
				self.orders[o].status = "ready".into();
			}
		}
		let csr_b64 = payload
			.as_ref()
			.and_then(|p| p.get("csr"))
			.and_then(|c| c.as_str())
			.map(|s| s.to_string());
		let csr_der = csr_b64.as_deref().map(b64u_decode);
		let hash = match &csr_der {
			Some(Ok(d)) => super::util::sha256_hex(d),
			_ => "unparseable".to_string(),
		};
		self.orders[o].finalize_csrs.push((req.tx, hash));
		match self.orders[o].status.as_str() {
			"ready" => {}
			"processing" | "valid" => return json_resp(200, &self.order_json(o)),
			_ => return problem(403, "orderNotReady", "order is not ready"),
		}
		let der = match csr_der {
			Some(Ok(d)) => d,
			_ => return problem(400, "malformed", "csr missing or not base64url"),
		};
		let (facts, pk) = issue::inspect_csr(&der);
		self.orders[o].csr = Some(facts.clone());
		let pk = match pk {
			Some(pk) if facts.self_sig_ok => pk,
			_ => {
				return problem(
					400,
					"badCSR",
					"CSR does not parse or its self-signature is invalid",
				)
			}
		};
		// RFC 8555 7.4: the CSR must request exactly the order's identifiers
		let mut want: Vec<(String, String)> = self.orders[o].identifiers.clone();
		want.sort();
		let mut got: Vec<(String, String)> = facts
			.dns
			.iter()
			.map(|d| ("dns".to_string(), d.clone()))
			.collect();
		got.extend(facts.ips.iter().map(|d| ("ip".to_string(), d.clone())));
		got.sort();
		if want != got {
			return problem(400, "badCSR", "CSR identifiers differ from the order's");
		}
		let n = self.issued.len();
		let life = self.knobs.lifetime_s[n % self.knobs.lifetime_s.len().max(1)];
		let chain = self.knobs.chain_len[n % self.knobs.chain_len.len().max(1)];
		let (mut dns, mut ips) = (facts.dns.clone(), facts.ips.clone());
		match self.knobs.san_mode.as_str() {
			"drop_last" => {
				if !ips.is_empty() {
					ips.pop();
				} else if dns.len() > 1 {
					dns.pop();
				}
			}
			"extra" => dns.push("extra.sim".into()),
			"permuted" => {
				dns.reverse();
				ips.reverse();
			}
			_ => {}
		}
		match issue::issue(
			&pk,
			&dns,
			&ips,
			env.wall,
			life,
			chain,
			(self.idx * 100_000 + n) as u64,
		) {
			Ok(c) => {
				self.issued.push(IssuedCert {
					order: o,
					pem: if self.knobs.pem_crlf { c.pem.replace('\n', "\r\n") } else { c.pem },
					leaf_pubkey_der: facts.pubkey_der.clone(),
					not_after: c.not_after,
					not_before: c.not_before,
					dns,
					ips,
					t: env.mono,
					chain_len: chain,
				});
				self.orders[o].issued = Some(n);
				if self.orders[o].polls_valid_left > 0 {
					self.orders[o].status = "processing".into();
				} else {
					self.orders[o].status = "valid".into();
				}
				json_resp(200, &self.order_json(o))
			}
			Err(e) => problem(500, "serverInternal", &format!("issuance failed: {}", e)),
		}
	}

	fn order_json(&self, o: usize) -> Value {
		let ord = &self.orders[o];
		let b = self.base();
		let mut v = json!({
			"status": ord.status,
			"expires": "2099-01-01T00:00:00Z",
			"identifiers": ord.identifiers.iter().map(|(t, v)| json!({"type": t, "value": v})).collect::<Vec<_>>(),
			"authorizations": ord.authzs.iter().map(|a| format!("{}/authz/{}", b, a)).collect::<Vec<_>>(),
			"finalize": format!("{}/finalize/{}", b, o),
		});
		if ord.status == "valid" && ord.issued.is_some() {
			v["certificate"] = json!(format!("{}/cert/{}", b, o));
		}
		if ord.status == "invalid" {
			v["error"] = json!({"type": "urn:ietf:params:acme:error:unauthorized", "detail": "an authorization failed", "status": 403});
		}
		v
	}

	fn chall_json(&self, c: usize) -> Value {
		let ch = &self.challs[c];
		let mut v = json!({
			"type": ch.typ,
			"url": format!("{}/chall/{}", self.base(), c),
			"status": ch.status,
			"token": ch.token,
		});
		if ch.status == "valid" {
			v["validated"] = json!("2026-01-01T00:00:00Z");
		}
		if ch.status == "invalid" {
			v["error"] = json!({"type": "urn:ietf:params:acme:error:incorrectResponse", "detail": "validation failed (CA behaviour knob)", "status": 403});
		}
		v
	}

	fn authz_json(&self, a: usize) -> Value {
		let az = &self.authzs[a];
		let mut v = json!({
			"identifier": {"type": az.id_type, "value": az.value},
			"status": az.status,
			"expires": "2099-01-01T00:00:00Z",
			"challenges": az.challs.iter().map(|c| self.chall_json(*c)).collect::<Vec<_>>(),
		});
		if az.wildcard {
			v["wildcard"] = json!(true);
		}
		v
	}

	pub fn forget_account(&mut self, thumb_or_any: Option<&str>, now: u128) -> usize {
		let mut n = 0;
		for a in self.accounts.iter_mut() {
			if !a.forgotten && thumb_or_any.map(|t| t == a.key.thumb).unwrap_or(true) {
				a.forgotten = true;
				a.forgotten_at = Some(now);
				n += 1;
			}
		}
		n
	}
}

fn rec_outer_jwk(req: &Req) -> Option<Value> {
	let body: Value = serde_json::from_slice(&req.body).ok()?;
	let prot = b64u_decode(body.get("protected")?.as_str()?).ok()?;
	let h: Value = serde_json::from_slice(&prot).ok()?;
	h.get("jwk").cloned()
}

pub fn parse_identifiers(p: &Value) -> Option<Vec<(String, String)>> {
	let arr = p.get("identifiers")?.as_array()?;
	let mut out = vec![];
	for i in arr {
		let o = i.as_object()?;
		if o.len() != 2 {
			return None;
		}
		out.push((
			o.get("type")?.as_str()?.to_string(),
			o.get("value")?.as_str()?.to_string(),
		));
	}
	Some(out)
}

fn problem_type(r: &Resp) -> Option<String> {
	if r.status < 400 {
		return None;
	}
	let v: Value = serde_json::from_slice(&r.body).ok()?;
	v.get("type")
		.and_then(|t| t.as_str())
		.map(|s| s.rsplit(':').next().unwrap_or("").to_string())
}

pub fn fault_name(k: &FaultKind) -> String {
	match k {
		FaultKind::Acme { typ, status, .. } => format!(
			"acme.{}.{}",
			if typ.is_empty() { "<no type>" } else { typ },
			status
		),
		FaultKind::Http { status, .. } => format!("http.{}", status),
		FaultKind::Refuse => "refuse".into(),
		FaultKind::ResetAfter => "reset_after".into(),
		FaultKind::Delay { .. } => "delay".into(),
		FaultKind::DropHeader { name } => format!("drop_header.{}", name),
		FaultKind::BadNonceHeader => "bad_nonce_header".into(),
		FaultKind::DropField { name } => format!("drop_field.{}", name),
		FaultKind::SetField { name, .. } => format!("set_field.{}", name),
		FaultKind::CertBody { what } => format!("cert_body.{}", what),
		FaultKind::NotJson => "not_json".into(),
		FaultKind::Errno { errno, .. } => format!("errno.{}", errno),
		FaultKind::Exit { code } => format!("exit.{}", code),
		FaultKind::Nop => "nop".into(),
	}
}

/// Reply mutations ("malformed success reply" faults).  Returns true if something was changed.
fn mutate(r: &mut Resp, k: &FaultKind, ca: &mut Ca, env: &mut CaEnv) -> bool {
	match k {
		FaultKind::DropHeader { name } => {
			let n = r.headers.len();
			r.headers.retain(|(h, _)| !h.eq_ignore_ascii_case(name));
			r.headers.len() != n
		}
		FaultKind::BadNonceHeader => {
			let mut done = false;
			for (h, v) in r.headers.iter_mut() {
				if h.eq_ignore_ascii_case("Replay-Nonce") {
					*v = "not/a+valid=nonce".into();
					done = true;
				}
			}
			done
		}
		FaultKind::DropField { name } => match serde_json::from_slice::<Value>(&r.body) {
			Ok(mut v) => {
				let had = v
					.as_object_mut()
					.map(|o| o.remove(name).is_some())
					.unwrap_or(false);
				r.body = serde_json::to_vec(&v).unwrap();
				had
			}
			Err(_) => false,
		},
		FaultKind::SetField { name, value } => match serde_json::from_slice::<Value>(&r.body) {
			Ok(mut v) => {
				if let Some(o) = v.as_object_mut() {
					o.insert(name.clone(), value.clone());
					r.body = serde_json::to_vec(&v).unwrap();
					true
				} else {
					false
				}
			}
			Err(_) => false,
		},
		FaultKind::NotJson => {
			if r.status < 300 && !r.body.is_empty() {
				r.body = b"<html><body>It works!</body></html>".to_vec();
				true
			} else {
				false
			}
		}
		FaultKind::CertBody { what } => {
			let is_pem = r.headers.iter().any(|(h, v)| {
				h.eq_ignore_ascii_case("content-type") && v.contains("pem-certificate-chain")
			});
			if !is_pem || r.status != 200 {
				return false;
			}
			match what.as_str() {
				"garbage" => r.body = b"this is not a certificate\n".to_vec(),
				"empty" => r.body = vec![],
				"truncated" => {
					let n = r.body.len() / 3;
					r.body.truncate(n);
				}
				"not_utf8" => r.body = vec![0xff, 0xfe, 0x2d, 0x2d, 0x80],
				"issuer_first" => {
					// a well-formed chain that does not start with the certificate for the CSR's key: the
					// blocks rotated (leaf last), or a foreign certificate put in front of a lone leaf
					let text = String::from_utf8_lossy(&r.body).to_string();
					let mut blocks: Vec<String> = text
						.split("-----BEGIN CERTIFICATE-----")
						.filter(|b| b.contains("-----END CERTIFICATE-----"))
						.map(|b| format!("-----BEGIN CERTIFICATE-----{}", b))
						.collect();
					if blocks.len() >= 2 {
						let leaf = blocks.remove(0);
						blocks.push(leaf);
					} else {
						let g = openssl::ec::EcGroup::from_curve_name(openssl::nid::Nid::X9_62_PRIME256V1).unwrap();
						let k = openssl::pkey::PKey::from_ec_key(openssl::ec::EcKey::generate(&g).unwrap()).unwrap();
						let other = issue::issue_for_private(&k, &["issuer.sim".to_string()], &[], env.wall, 90 * 86400).unwrap_or_default();
						let first = other.split("-----BEGIN CERTIFICATE-----").nth(1).map(|b| format!("-----BEGIN CERTIFICATE-----{}", b)).unwrap_or_default();
						blocks.insert(0, first);
					}
					r.body = blocks.concat().into_bytes();
				}
				"leaf_then_truncated" => {
					// the right leaf, followed by a second PEM block cut in the middle
					let text = String::from_utf8_lossy(&r.body).to_string();
					let end = "-----END CERTIFICATE-----\n";
					if let Some(i) = text.find(end) {
						let leaf = &text[..i + end.len()];
						let cut = &leaf[..leaf.len() / 2];
						r.body = format!("{}{}", leaf, cut).into_bytes();
					}
				}
				_ => {
					// a perfectly valid chain -- for somebody else's key
					let g =
						openssl::ec::EcGroup::from_curve_name(openssl::nid::Nid::X9_62_PRIME256V1)
							.unwrap();
					let k =
						openssl::pkey::PKey::from_ec_key(openssl::ec::EcKey::generate(&g).unwrap())
							.unwrap();
					let pem = issue::issue_for_private(
						&k,
						&["other.sim".to_string()],
						&[],
						env.wall,
						90 * 86400,
					)
					.unwrap_or_default();
					r.body = pem.into_bytes();
				}
			}
			let _ = ca;
			true
		}
		_ => false,
	}
}
