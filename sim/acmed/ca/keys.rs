// Independent JWK / JWS machinery of the model CA: public keys are rebuilt from the raw JWK
// members and signatures verified with the openssl crate directly (RFC 7515/7517/7518/7638/8037),
// never through acme_common::crypto.
use crate::verif::util::{b64u, b64u_decode, sha256};
use openssl::bn::BigNum;
use openssl::ec::{EcGroup, EcKey};
use openssl::ecdsa::EcdsaSig;
use openssl::hash::MessageDigest;
use openssl::nid::Nid;
use openssl::pkey::{Id, PKey, Public};
use openssl::rsa::Rsa;
use openssl::sign::Verifier;
use serde_json::Value;

#[derive(Clone)]
pub struct Jwk {
	pub kty: String,
	/// "RSA2048", "RSA4096", "P-256", "P-384", "P-521", "Ed25519", "Ed448"
	pub kind: String,
	pub canonical: String,
	pub thumb: String,
	pub pkey: PKey<Public>,
}

impl std::fmt::Debug for Jwk {
	fn fmt(&self, f: &mut std::fmt::Formatter) -> std::fmt::Result {
		write!(f, "Jwk({} {})", self.kind, self.thumb)
	}
}

fn member<'a>(v: &'a Value, k: &str) -> Result<&'a str, String> {
	v.get(k)
		.and_then(|x| x.as_str())
		.ok_or_else(|| format!("jwk member {} missing or not a string", k))
}

pub fn parse_jwk(v: &Value) -> Result<Jwk, String> {
	if !v.is_object() {
		return Err("jwk is not an object".into());
	}
	let kty = member(v, "kty")?;
	match kty {
		"RSA" => {
			let n_s = member(v, "n")?;
			let e_s = member(v, "e")?;
			let n = b64u_decode(n_s)?;
			let e = b64u_decode(e_s)?;
			if n.is_empty() || n[0] == 0 {
				return Err("RSA n is not minimal-length".into());
			}
			if e.is_empty() || e[0] == 0 {
				return Err("RSA e is not minimal-length".into());
			}
			let bits = n.len() * 8;
			let kind = match bits {
				2048 => "RSA2048",
				4096 => "RSA4096",
				_ => return Err(format!("unsupported RSA modulus size {}", bits)),
			};
			let rsa = Rsa::from_public_components(
				BigNum::from_slice(&n).map_err(|e| e.to_string())?,
				BigNum::from_slice(&e).map_err(|e| e.to_string())?,
			)
			.map_err(|e| e.to_string())?;
			let pkey = PKey::from_rsa(rsa).map_err(|e| e.to_string())?;
			let canonical = format!("{{\"e\":\"{}\",\"kty\":\"RSA\",\"n\":\"{}\"}}", e_s, n_s);
			Ok(Jwk {
				kty: kty.into(),
				kind: kind.into(),
				thumb: b64u(&sha256(canonical.as_bytes())),
				canonical,
				pkey,
			})
		}
		"EC" => {
			let crv = member(v, "crv")?;
			let (nid, size) = match crv {
				"P-256" => (Nid::X9_62_PRIME256V1, 32),
				"P-384" => (Nid::SECP384R1, 48),
				"P-521" => (Nid::SECP521R1, 66),
				_ => return Err(format!("unsupported curve {}", crv)),
			};
			let x_s = member(v, "x")?;
			let y_s = member(v, "y")?;
			let x = b64u_decode(x_s)?;
			let y = b64u_decode(y_s)?;
			if x.len() != size || y.len() != size {
				return Err(format!(
					"EC coordinates must be exactly {} octets (got {} and {})",
					size,
					x.len(),
					y.len()
				));
			}
			let group = EcGroup::from_curve_name(nid).map_err(|e| e.to_string())?;
			let bx = BigNum::from_slice(&x).map_err(|e| e.to_string())?;
			let by = BigNum::from_slice(&y).map_err(|e| e.to_string())?;
			let key = EcKey::from_public_key_affine_coordinates(&group, &bx, &by)
				.map_err(|e| format!("point not on curve: {}", e))?;
			key.check_key().map_err(|e| e.to_string())?;
			let pkey = PKey::from_ec_key(key).map_err(|e| e.to_string())?;
			let canonical = format!(
				"{{\"crv\":\"{}\",\"kty\":\"EC\",\"x\":\"{}\",\"y\":\"{}\"}}",
				crv, x_s, y_s
			);
			Ok(Jwk {
				kty: kty.into(),
				kind: crv.into(),
				thumb: b64u(&sha256(canonical.as_bytes())),
				canonical,
				pkey,
			})
		}
		"OKP" => {
			let crv = member(v, "crv")?;
			let (id, size) = match crv {
				"Ed25519" => (Id::ED25519, 32),
				"Ed448" => (Id::ED448, 57),
				_ => return Err(format!("unsupported OKP curve {}", crv)),
			};
			let x_s = member(v, "x")?;
			let x = b64u_decode(x_s)?;
			if x.len() != size {
				return Err(format!("OKP x must be {} octets (got {})", size, x.len()));
			}
			let pkey = PKey::public_key_from_raw_bytes(&x, id).map_err(|e| e.to_string())?;
			let canonical = format!("{{\"crv\":\"{}\",\"kty\":\"OKP\",\"x\":\"{}\"}}", crv, x_s);
			Ok(Jwk {
				kty: kty.into(),
				kind: crv.into(),
				thumb: b64u(&sha256(canonical.as_bytes())),
				canonical,
				pkey,
			})
		}
		_ => Err(format!("unsupported kty {}", kty)),
	}
}

/// Does `alg` name the algorithm matching this key?  OKP keys: "EdDSA" (RFC 8037) and the fully
/// specified "Ed25519"/"Ed448" (RFC 9864) are both accepted (DESIGN.md 9.4 C04).
pub fn alg_matches(alg: &str, key: &Jwk) -> bool {
	match (alg, key.kind.as_str()) {
		("RS256", "RSA2048") | ("RS256", "RSA4096") => true,
		("ES256", "P-256") | ("ES384", "P-384") | ("ES512", "P-521") => true,
		("EdDSA", "Ed25519") | ("EdDSA", "Ed448") => true,
		("Ed25519", "Ed25519") | ("Ed448", "Ed448") => true,
		_ => false,
	}
}

pub struct SigInfo {
	pub ok: bool,
	pub len: usize,
	/// ECDSA only: r or s has at least one leading zero octet
	pub short_component: bool,
	pub problem: Option<String>,
}

pub fn verify(alg: &str, key: &Jwk, input: &[u8], sig: &[u8]) -> SigInfo {
	let mut info = SigInfo {
		ok: false,
		len: sig.len(),
		short_component: false,
		problem: None,
	};
	let res: Result<bool, String> = (|| match key.kind.as_str() {
		"RSA2048" | "RSA4096" => {
			let want = if key.kind == "RSA2048" { 256 } else { 512 };
			if sig.len() != want {
				return Err(format!(
					"RSA signature must be {} octets, got {}",
					want,
					sig.len()
				));
			}
			let mut v =
				Verifier::new(MessageDigest::sha256(), &key.pkey).map_err(|e| e.to_string())?;
			v.update(input).map_err(|e| e.to_string())?;
			v.verify(sig).map_err(|e| e.to_string())
		}
		"P-256" | "P-384" | "P-521" => {
			let (size, md) = match key.kind.as_str() {
				"P-256" => (32, MessageDigest::sha256()),
				"P-384" => (48, MessageDigest::sha384()),
				_ => (66, MessageDigest::sha512()),
			};
			if sig.len() != 2 * size {
				return Err(format!(
					"ECDSA signature must be fixed-width R||S of {} octets, got {}",
					2 * size,
					sig.len()
				));
			}
			let r = BigNum::from_slice(&sig[..size]).map_err(|e| e.to_string())?;
			let s = BigNum::from_slice(&sig[size..]).map_err(|e| e.to_string())?;
			let der = EcdsaSig::from_private_components(r, s)
				.and_then(|s| s.to_der())
				.map_err(|e| e.to_string())?;
			let mut v = Verifier::new(md, &key.pkey).map_err(|e| e.to_string())?;
			v.update(input).map_err(|e| e.to_string())?;
			v.verify(&der).map_err(|e| e.to_string())
		}
		"Ed25519" | "Ed448" => {
			let want = if key.kind == "Ed25519" { 64 } else { 114 };
			if sig.len() != want {
				return Err(format!(
					"EdDSA signature must be {} octets, got {}",
					want,
					sig.len()
				));
			}
			let mut v = Verifier::new_without_digest(&key.pkey).map_err(|e| e.to_string())?;
			v.verify_oneshot(sig, input).map_err(|e| e.to_string())
		}
		k => Err(format!("no verifier for {}", k)),
	})();
	if let "P-256" | "P-384" | "P-521" = key.kind.as_str() {
		let size = sig.len() / 2;
		if size > 0 && sig.len() % 2 == 0 {
			info.short_component = sig[0] == 0 || sig[size] == 0;
		}
	}
	match res {
		Ok(true) => info.ok = true,
		Ok(false) => info.problem = Some("signature does not verify".into()),
		Err(e) => info.problem = Some(e),
	}
	info
}

pub fn hmac_ok(alg: &str, key: &[u8], input: &[u8], sig: &[u8]) -> bool {
	let md = match alg {
		"HS256" => MessageDigest::sha256(),
		"HS384" => MessageDigest::sha384(),
		"HS512" => MessageDigest::sha512(),
		_ => return false,
	};
	let pk = match PKey::hmac(key) {
		Ok(k) => k,
		Err(_) => return false,
	};
	let mut s = match openssl::sign::Signer::new(md, &pk) {
		Ok(s) => s,
		Err(_) => return false,
	};
	if s.update(input).is_err() {
		return false;
	}
	match s.sign_to_vec() {
		Ok(v) => v.len() == sig.len() && openssl::memcmp::eq(&v, sig),
		Err(_) => false,
	}
}

/// A parsed flattened-JSON JWS.
pub struct Jws {
	pub protected_b64: String,
	pub payload_b64: String,
	pub header: Value,
	pub payload: Vec<u8>,
	pub signature: Vec<u8>,
}

impl Jws {
	pub fn signing_input(&self) -> Vec<u8> {
		format!("{}.{}", self.protected_b64, self.payload_b64).into_bytes()
	}
}

/// Strict parse: exactly the members protected, payload, signature; all strings; strict base64url.
pub fn parse_jws(v: &Value) -> Result<Jws, String> {
	let obj = v.as_object().ok_or("JWS is not a JSON object")?;
	for k in obj.keys() {
		if k != "protected" && k != "payload" && k != "signature" {
			return Err(format!("unexpected JWS member {:?} (flattened serialization has none, 'header' is forbidden)", k));
		}
	}
	let g = |k: &str| -> Result<String, String> {
		obj.get(k)
			.and_then(|x| x.as_str())
			.map(|s| s.to_string())
			.ok_or_else(|| format!("JWS member {} missing", k))
	};
	let protected_b64 = g("protected")?;
	let payload_b64 = g("payload")?;
	let sig_b64 = g("signature")?;
	let header_raw = b64u_decode(&protected_b64).map_err(|e| format!("protected: {}", e))?;
	let header: Value =
		serde_json::from_slice(&header_raw).map_err(|e| format!("protected header: {}", e))?;
	if !header.is_object() {
		return Err("protected header is not an object".into());
	}
	let payload = b64u_decode(&payload_b64).map_err(|e| format!("payload: {}", e))?;
	let signature = b64u_decode(&sig_b64).map_err(|e| format!("signature: {}", e))?;
	Ok(Jws {
		protected_b64,
		payload_b64,
		header,
		payload,
		signature,
	})
}

/// Self-tests against RFC vectors (run by `selftest`; a model that fails them makes every check
/// exit 2).  RFC 8037 A.3 thumbprint (RFC 7638 canonical form), RFC 7515 A.2 RS256, A.3 ES256, RFC 8037 A.4 Ed25519.
pub fn selftest() -> Result<(), String> {
	// RFC 7515 A.3 (ES256)
	let jwk: Value = serde_json::from_str(r#"{"kty":"EC","crv":"P-256","x":"f83OJ3D2xF1Bg8vub9tLe1gHMzV76e8Tus9uPHvRVEU","y":"x_FEzRu9m36HLN_tue659LNpXW6pCyStikYjKIWI5a0"}"#).unwrap();
	let k = parse_jwk(&jwk)?;
	let input = b"eyJhbGciOiJFUzI1NiJ9.eyJpc3MiOiJqb2UiLA0KICJleHAiOjEzMDA4MTkzODAsDQogImh0dHA6Ly9leGFtcGxlLmNvbS9pc19yb290Ijp0cnVlfQ";
	let sig = b64u_decode(
		"DtEhU3ljbEg8L38VWAfUAqOyKAM6-Xx-F4GawxaepmXFCgfTjDxw5djxLa8ISlSApmWQxfKTUJqPP3-Kg6NU1Q",
	)?;
	let r = verify("ES256", &k, input, &sig);
	if !r.ok {
		return Err(format!(
			"RFC 7515 A.3 ES256 vector rejected: {:?}",
			r.problem
		));
	}
	let mut bad = sig.clone();
	bad[5] ^= 1;
	if verify("ES256", &k, input, &bad).ok {
		return Err("ES256 verifier accepts a corrupted signature".into());
	}
	// RFC 8037 A.4 (Ed25519)
	let jwk: Value = serde_json::from_str(
		r#"{"kty":"OKP","crv":"Ed25519","x":"11qYAYKxCrfVS_7TyWQHOg7hcvPapiMlrwIaaPcHURo"}"#,
	)
	.unwrap();
	let k = parse_jwk(&jwk)?;
	if k.thumb != "kPrK_qmxVWaYVA9wwBF6Iuo3vVzz7TxHCTwXBygrS4k" {
		return Err(format!("RFC 8037 A.3 thumbprint mismatch: {}", k.thumb));
	}
	let input = b"eyJhbGciOiJFZERTQSJ9.RXhhbXBsZSBvZiBFZDI1NTE5IHNpZ25pbmc";
	let sig = b64u_decode(
		"hgyY0il_MGCjP0JzlnLWG1PPOt7-09PGcvMg3AIbQR6dWbhijcNR4ki4iylGjg5BhVsPt9g7sVvpAr_MuM0KAg",
	)?;
	let r = verify("EdDSA", &k, input, &sig);
	if !r.ok {
		return Err(format!(
			"RFC 8037 A.4 Ed25519 vector rejected: {:?}",
			r.problem
		));
	}
	// RFC 7515 A.2 (RS256)
	let jwk: Value = serde_json::from_str(r#"{"kty":"RSA","n":"ofgWCuLjybRlzo0tZWJjNiuSfb4p4fAkd_wWJcyQoTbji9k0l8W26mPddxHmfHQp-Vaw-4qPCJrcS2mJPMEzP1Pt0Bm4d4QlL-yRT-SFd2lZS-pCgNMsD1W_YpRPEwOWvG6b32690r2jZ47soMZo9wGzjb_7OMg0LOL-bSf63kpaSHSXndS5z5rexMdbBYUsLA9e-KXBdQOS-UTo7WTBEMa2R2CapHg665xsmtdVMTBQY4uDZlxvb3qCo5ZwKh9kG4LT6_I5IhlJH7aGhyxXFvUK-DWNmoudF8NAco9_h9iaGNj8q2ethFkMLs91kzk2PAcDTW9gb54h4FRWyuXpoQ","e":"AQAB"}"#).unwrap();
	let k = parse_jwk(&jwk)?;
	let input = b"eyJhbGciOiJSUzI1NiJ9.eyJpc3MiOiJqb2UiLA0KICJleHAiOjEzMDA4MTkzODAsDQogImh0dHA6Ly9leGFtcGxlLmNvbS9pc19yb290Ijp0cnVlfQ";
	let sig = b64u_decode("cC4hiUPoj9Eetdgtv3hF80EGrhuB__dzERat0XF9g2VtQgr9PJbu3XOiZj5RZmh7AAuHIm4Bh-0Qc_lF5YKt_O8W2Fp5jujGbds9uJdbF9CUAr7t1dnZcAcQjbKBYNX4BAynRFdiuB--f_nZLgrnbyTyWzO75vRK5h6xBArLIARNPvkSjtQBMHlb1L07Qe7K0GarZRmB_eSN9383LcOLn6_dO--xi12jzDwusC-eOkHWEsqtFZESc6BfI7noOPqvhJ1phCnvWh6IeYI2w9QOYEUipUTI8np6LbgGY9Fs98rqVt5AXLIhWkWywlVmtVrBp0igcN_IoypGlUPQGe77Rw")?;
	let r = verify("RS256", &k, input, &sig);
	if !r.ok {
		return Err(format!(
			"RFC 7515 A.2 RS256 vector rejected: {:?}",
			r.problem
		));
	}
	// base64url strictness
	if b64u_decode("AA==").is_ok() || b64u_decode("A+").is_ok() || b64u_decode("AB").is_ok() {
		return Err("base64url decoder is not strict".into());
	}
	Ok(())
}

/// Public JWK of a private key, built from the raw key components with the openssl crate (own
/// code path; used by the harness to identify an account key, e.g. for "CA forgets the account").
pub fn jwk_of_private(k: &openssl::pkey::PKeyRef<openssl::pkey::Private>) -> Result<Value, String> {
	use openssl::bn::BigNumContext;
	let e = |e: openssl::error::ErrorStack| e.to_string();
	match k.id() {
		Id::RSA => {
			let r = k.rsa().map_err(e)?;
			Ok(
				serde_json::json!({"kty": "RSA", "n": b64u(&r.n().to_vec()), "e": b64u(&r.e().to_vec())}),
			)
		}
		Id::EC => {
			let ec = k.ec_key().map_err(e)?;
			let (crv, size) = match ec.group().curve_name() {
				Some(Nid::X9_62_PRIME256V1) => ("P-256", 32),
				Some(Nid::SECP384R1) => ("P-384", 48),
				Some(Nid::SECP521R1) => ("P-521", 66),
				_ => return Err("unsupported curve".into()),
			};
			let mut ctx = BigNumContext::new().map_err(e)?;
			let mut x = BigNum::new().map_err(e)?;
			let mut y = BigNum::new().map_err(e)?;
			ec.public_key()
				.affine_coordinates(ec.group(), &mut x, &mut y, &mut ctx)
				.map_err(e)?;
			Ok(serde_json::json!({"kty": "EC", "crv": crv,
				"x": b64u(&x.to_vec_padded(size).map_err(e)?), "y": b64u(&y.to_vec_padded(size).map_err(e)?)}))
		}
		Id::ED25519 => Ok(
			serde_json::json!({"kty": "OKP", "crv": "Ed25519", "x": b64u(&k.raw_public_key().map_err(e)?)}),
		),
		Id::ED448 => Ok(
			serde_json::json!({"kty": "OKP", "crv": "Ed448", "x": b64u(&k.raw_public_key().map_err(e)?)}),
		),
		_ => Err("unsupported key".into()),
	}
}
