// Oracle-side expectations computed independently of the daemon: IDNA A-labels (own RFC 3492
// encoder), canonical IP text (own RFC 5952 formatter), reverse-DNS names, hook expansion.
use super::plan::{CertCfg, Config, HookCfg, IdentCfg};
use std::net::{IpAddr, Ipv6Addr};

#[path = "../common/idna.rs"]
mod idna;
pub use idna::{a_label_name, punycode};

/// RFC 5952 text of an IPv6 address (own formatter): lower-case hex, no leading zeros, the longest
/// run (>= 2, first on ties) of zero groups compressed; IPv4-mapped addresses in mixed notation.
pub fn ipv6_text(a: &Ipv6Addr) -> String {
	let g = a.segments();
	if g[0] == 0 && g[1] == 0 && g[2] == 0 && g[3] == 0 && g[4] == 0 && g[5] == 0xffff {
		return format!(
			"::ffff:{}.{}.{}.{}",
			g[6] >> 8,
			g[6] & 0xff,
			g[7] >> 8,
			g[7] & 0xff
		);
	}
	let (mut best_start, mut best_len) = (0usize, 0usize);
	let mut i = 0;
	while i < 8 {
		if g[i] == 0 {
			let s = i;
			while i < 8 && g[i] == 0 {
				i += 1;
			}
			if i - s > best_len {
				best_start = s;
				best_len = i - s;
			}
		} else {
			i += 1;
		}
	}
	if best_len < 2 {
		return g
			.iter()
			.map(|x| format!("{:x}", x))
			.collect::<Vec<_>>()
			.join(":");
	}
	let left: Vec<String> = g[..best_start].iter().map(|x| format!("{:x}", x)).collect();
	let right: Vec<String> = g[best_start + best_len..]
		.iter()
		.map(|x| format!("{:x}", x))
		.collect();
	format!("{}::{}", left.join(":"), right.join(":"))
}

pub fn ip_text(raw: &str) -> Option<String> {
	match raw.parse::<IpAddr>().ok()? {
		IpAddr::V4(v) => {
			let o = v.octets();
			Some(format!("{}.{}.{}.{}", o[0], o[1], o[2], o[3]))
		}
		IpAddr::V6(v) => Some(ipv6_text(&v)),
	}
}

/// reverse-DNS form of an IP identifier (RFC 8738 section 6 / RFC 3596 2.5)
pub fn reverse_dns(raw: &str) -> Option<String> {
	match raw.parse::<IpAddr>().ok()? {
		IpAddr::V4(v) => {
			let o = v.octets();
			Some(format!("{}.{}.{}.{}.in-addr.arpa", o[3], o[2], o[1], o[0]))
		}
		IpAddr::V6(v) => {
			let mut parts = vec![];
			for b in v.octets().iter().rev() {
				parts.push(format!("{:x}", b & 0xf));
				parts.push(format!("{:x}", b >> 4));
			}
			Some(format!("{}.ip6.arpa", parts.join(".")))
		}
	}
}

/// (type, value) the daemon must put in newOrder / the CSR for this configured identifier
pub fn ident_wire(i: &IdentCfg) -> (String, String) {
	match (&i.dns, &i.ip) {
		(Some(d), _) => ("dns".to_string(), a_label_name(d)),
		(None, Some(ip)) => ("ip".to_string(), ip_text(ip).unwrap_or_else(|| ip.clone())),
		_ => ("?".into(), String::new()),
	}
}

pub fn cert_wire_idents(c: &CertCfg) -> Vec<(String, String)> {
	c.identifiers.iter().map(ident_wire).collect()
}

/// Expand a list of hook/group names into hooks, declaration order, groups in place (recursively).
pub fn expand_hooks<'a>(cfg: &'a Config, names: &[String]) -> Vec<&'a HookCfg> {
	fn rec<'a>(cfg: &'a Config, name: &str, out: &mut Vec<&'a HookCfg>, depth: u32) {
		if depth > 16 {
			return;
		}
		if let Some(h) = cfg.hooks.iter().find(|h| h.name == name) {
			out.push(h);
			return;
		}
		if let Some(g) = cfg.groups.iter().find(|g| g.name == name) {
			for n in g.hooks.iter() {
				rec(cfg, n, out, depth + 1);
			}
		}
	}
	let mut out = vec![];
	for n in names {
		rec(cfg, n, &mut out, 0);
	}
	out
}

pub fn selftest() -> Result<(), String> {
	// RFC 3492 section 7.1 samples
	let cases: &[(&str, &str)] = &[
		("\u{0644}\u{064A}\u{0647}\u{0645}\u{0627}\u{0628}\u{062A}\u{0643}\u{0644}\u{0645}\u{0648}\u{0634}\u{0639}\u{0631}\u{0628}\u{064A}\u{061F}", "egbpdaj6bu4bxfgehfvwxn"),
		("\u{4ED6}\u{4EEC}\u{4E3A}\u{4EC0}\u{4E48}\u{4E0D}\u{8BF4}\u{4E2D}\u{6587}", "ihqwcrb4cv8a8dqg056pqjye"),
		("Pro\u{010D}prost\u{011B}nemluv\u{00ED}\u{010D}esky", "Proprostnemluvesky-uyb24dma41a"),
		("3\u{5E74}B\u{7D44}\u{91D1}\u{516B}\u{5148}\u{751F}", "3B-ww4c5e180e575a65lsy2b"),
		("b\u{00FC}cher", "bcher-kva"),
	];
	for (i, o) in cases {
		let got = punycode(i).ok_or("punycode overflow")?;
		if &got != o {
			return Err(format!("punycode({:?}) = {:?}, expected {:?}", i, got, o));
		}
	}
	if a_label_name("*.B\u{00DC}CHER.Example.ORG") != "*.xn--bcher-kva.example.org" {
		return Err(format!(
			"a_label_name: {}",
			a_label_name("*.B\u{00DC}CHER.Example.ORG")
		));
	}
	// RFC 5952 section 4 examples
	let v6: &[(&str, &str)] = &[
		("2001:0db8::0001", "2001:db8::1"),
		("2001:db8:0:0:0:0:2:1", "2001:db8::2:1"),
		("2001:db8:0:1:1:1:1:1", "2001:db8:0:1:1:1:1:1"),
		("2001:0:0:1:0:0:0:1", "2001:0:0:1::1"),
		("2001:db8:0:0:1:0:0:1", "2001:db8::1:0:0:1"),
		(
			"2001:DB8:AAAA:BBBB:CCCC:DDDD:EEEE:0001",
			"2001:db8:aaaa:bbbb:cccc:dddd:eeee:1",
		),
		("::", "::"),
		("::1", "::1"),
		("1::", "1::"),
	];
	for (i, o) in v6 {
		let got = ip_text(i).ok_or("ip parse")?;
		if &got != o {
			return Err(format!("ip_text({}) = {}, expected {}", i, got, o));
		}
	}
	if reverse_dns("203.0.113.1").as_deref() != Some("1.113.0.203.in-addr.arpa") {
		return Err("reverse_dns v4".into());
	}
	if reverse_dns("2001:db8::1").as_deref()
		!= Some("1.0.0.0.0.0.0.0.0.0.0.0.0.0.0.0.0.0.0.0.0.0.0.0.8.b.d.0.1.0.0.2.ip6.arpa")
	{
		return Err("reverse_dns v6".into());
	}
	Ok(())
}
