// Randomness seam for OpenSSL: key generation, ECDSA nonces and RSA primes all draw from OpenSSL's
// RNG, which is not reachable through a Rust-level seam.  For the duration of a simulated run the
// harness installs a RAND_METHOD whose bytes come from a PRNG seeded by the plan, so that key
// material, signatures (incl. the rare short ECDSA components C04 counts), PEM/DER lengths and
// account-file contents are a function of the plan: a violation that depends on them replays.
// (libcrypto is already linked through the openssl crate; RAND_set_rand_method is deprecated in
// OpenSSL 3 but honoured by RAND_bytes_ex / RAND_priv_bytes_ex, which every consumer goes through.)
use std::cell::Cell;
use std::os::raw::{c_double, c_int, c_uchar, c_void};

#[repr(C)]
pub struct RandMethod {
	seed: Option<extern "C" fn(*const c_void, c_int) -> c_int>,
	bytes: Option<extern "C" fn(*mut c_uchar, c_int) -> c_int>,
	cleanup: Option<extern "C" fn()>,
	add: Option<extern "C" fn(*const c_void, c_int, c_double) -> c_int>,
	pseudorand: Option<extern "C" fn(*mut c_uchar, c_int) -> c_int>,
	status: Option<extern "C" fn() -> c_int>,
}

extern "C" {
	fn RAND_set_rand_method(meth: *const RandMethod) -> c_int;
}

thread_local! {
	static STATE: Cell<u64> = Cell::new(0x1234_5678_9abc_def0);
	static DRAWN: Cell<u64> = Cell::new(0);
}

fn next() -> u64 {
	STATE.with(|s| {
		let mut x = s.get().wrapping_add(0x9E37_79B9_7F4A_7C15);
		s.set(x);
		x = (x ^ (x >> 30)).wrapping_mul(0xBF58_476D_1CE4_E5B9);
		x = (x ^ (x >> 27)).wrapping_mul(0x94D0_49BB_1331_11EB);
		x ^ (x >> 31)
	})
}

extern "C" fn r_seed(_b: *const c_void, _n: c_int) -> c_int {
	1
}
extern "C" fn r_bytes(buf: *mut c_uchar, n: c_int) -> c_int {
	if buf.is_null() || n < 0 {
		return 0;
	}
	let out = unsafe { std::slice::from_raw_parts_mut(buf, n as usize) };
	for chunk in out.chunks_mut(8) {
		let v = next().to_le_bytes();
		chunk.copy_from_slice(&v[..chunk.len()]);
	}
	DRAWN.with(|d| d.set(d.get() + n as u64));
	1
}
extern "C" fn r_cleanup() {}
extern "C" fn r_add(_b: *const c_void, _n: c_int, _r: c_double) -> c_int {
	1
}
extern "C" fn r_status() -> c_int {
	1
}

static METHOD: RandMethod = RandMethod {
	seed: Some(r_seed),
	bytes: Some(r_bytes),
	cleanup: Some(r_cleanup),
	add: Some(r_add),
	pseudorand: Some(r_bytes),
	status: Some(r_status),
};

/// Install the deterministic generator, seeded for this run.
pub fn install(seed: u64) {
	STATE.with(|s| s.set(seed ^ 0x05EE_D0FF_C0DE_2026));
	DRAWN.with(|d| d.set(0));
	unsafe {
		RAND_set_rand_method(&METHOD);
	}
}

/// Back to OpenSSL's own generator.
pub fn uninstall() -> u64 {
	unsafe {
		RAND_set_rand_method(std::ptr::null());
	}
	DRAWN.with(|d| d.get())
}
