// Plan minimisation (filled in later).
pub fn main(_args: &[String]) -> i32 {
	2
}
