// Plan minimisation: shrink the operation and fault sequence (drop steps, faults, certificates,
// identifiers; shrink counts, latencies, knobs) while the SAME violation (property, kind, cause,
// phase) persists, to a fixpoint under a time cap.  Labelled PRNG streams keep unrelated draws
// stable when something is removed, so shrinking converges instead of stopping at the first
// candidate that happens not to fail.
use super::plan::*;
use serde_json::json;
use std::time::Instant;

fn arg(args: &[String], name: &str) -> Option<String> {
	args.iter()
		.position(|a| a == name)
		.and_then(|i| args.get(i + 1))
		.cloned()
}

fn vkey(v: &serde_json::Value) -> String {
	// same as Violation::key(): property|kind|cause|phase
	format!(
		"{}|{}|{}|{}",
		v["property"].as_str().unwrap_or(""),
		v["kind"].as_str().unwrap_or(""),
		v["cause"].as_str().unwrap_or(""),
		v["phase"].as_str().unwrap_or("")
	)
}

/// every candidate runs in its own process image, like every other run (child.rs)
fn run_for(plan: &Plan, prop: &str, key: &str) -> Option<serde_json::Value> {
	let iso = super::child::run_isolated(plan, &[prop.to_string()], false, false);
	if iso.harness_error {
		return None;
	}
	iso.record["violations"].as_array().and_then(|a| a.iter().find(|v| vkey(v) == key).cloned())
}

fn fails(plan: &Plan, prop: &str, key: &str) -> bool {
	run_for(plan, prop, key).is_some()
}

fn remove_cert(p: &Plan, i: usize) -> Option<Plan> {
	if p.config.certificates.len() <= 1 {
		return None;
	}
	let mut q = p.clone();
	q.config.certificates.remove(i);
	q.faults.retain(|f| f.cert != Some(i));
	for f in q.faults.iter_mut() {
		if let Some(c) = f.cert {
			if c > i {
				f.cert = Some(c - 1);
			}
		}
	}
	q.world
		.pre_files
		.retain(|f| !f.target.ends_with(&format!(":{}", i)));
	for f in q.world.pre_files.iter_mut() {
		if let Some(pos) = f.target.find(':') {
			if let Ok(c) = f.target[pos + 1..].parse::<usize>() {
				if c > i {
					f.target = format!("{}:{}", &f.target[..pos], c - 1);
				}
			}
		}
	}
	for op in q.ops.iter_mut() {
		match op {
			Op::Run { only, .. } => {
				only.retain(|c| *c != i);
				for c in only.iter_mut() {
					if *c > i {
						*c -= 1;
					}
				}
			}
			Op::RemoveFile { cert, .. } => {
				if *cert == i {
					*cert = usize::MAX;
				} else if *cert > i {
					*cert -= 1;
				}
			}
			_ => {}
		}
	}
	q.ops
		.retain(|op| !matches!(op, Op::RemoveFile { cert, .. } if *cert == usize::MAX));
	Some(q)
}

fn candidates(p: &Plan) -> Vec<Plan> {
	let mut out = vec![];
	// drop operations (keep at least one)
	if p.ops.len() > 1 {
		for i in 0..p.ops.len() {
			let mut q = p.clone();
			q.ops.remove(i);
			out.push(q);
		}
	}
	// drop faults
	for i in 0..p.faults.len() {
		let mut q = p.clone();
		q.faults.remove(i);
		out.push(q);
	}
	// drop certificates
	for i in 0..p.config.certificates.len() {
		if let Some(q) = remove_cert(p, i) {
			out.push(q);
		}
	}
	// drop identifiers
	for (ci, c) in p.config.certificates.iter().enumerate() {
		if c.identifiers.len() > 1 {
			for ii in 0..c.identifiers.len() {
				let mut q = p.clone();
				q.config.certificates[ci].identifiers.remove(ii);
				out.push(q);
			}
		}
	}
	// shrink faults
	for (i, f) in p.faults.iter().enumerate() {
		if f.count > 1 {
			for c in [1, f.count / 2, f.count - 1].iter() {
				if *c >= 1 && *c < f.count {
					let mut q = p.clone();
					q.faults[i].count = *c;
					out.push(q);
				}
			}
		}
		if f.nth > 1 {
			let mut q = p.clone();
			q.faults[i].nth = 1;
			out.push(q);
			let mut q = p.clone();
			q.faults[i].nth = f.nth - 1;
			out.push(q);
		}
	}
	// shrink runs
	for (i, op) in p.ops.iter().enumerate() {
		match op {
			Op::Run {
				attempts,
				max_virtual_s,
				only,
			} => {
				if *attempts > 1 {
					for a in [1, attempts / 2, attempts - 1].iter() {
						if *a >= 1 && a < attempts {
							let mut q = p.clone();
							q.ops[i] = Op::Run {
								attempts: *a,
								max_virtual_s: *max_virtual_s,
								only: only.clone(),
							};
							out.push(q);
						}
					}
				}
				if *max_virtual_s > 600 {
					let mut q = p.clone();
					q.ops[i] = Op::Run {
						attempts: *attempts,
						max_virtual_s: max_virtual_s / 4,
						only: only.clone(),
					};
					out.push(q);
				}
			}
			Op::RunFor { virtual_s } if *virtual_s > 60 => {
				let mut q = p.clone();
				q.ops[i] = Op::RunFor {
					virtual_s: virtual_s / 2,
				};
				out.push(q);
			}
			Op::CrashAt {
				kind,
				nth,
				max_virtual_s,
			} if *nth > 1 => {
				let mut q = p.clone();
				q.ops[i] = Op::CrashAt {
					kind: kind.clone(),
					nth: nth - 1,
					max_virtual_s: *max_virtual_s,
				};
				out.push(q);
			}
			Op::Edit { patch } if patch.len() > 1 => {
				for k in 0..patch.len() {
					let mut pp = patch.clone();
					pp.remove(k);
					let mut q = p.clone();
					q.ops[i] = Op::Edit { patch: pp };
					out.push(q);
				}
			}
			_ => {}
		}
	}
	// simpler schedule
	let d = Sched::default();
	if p.sched.net_us != (100, 100) {
		let mut q = p.clone();
		q.sched.net_us = (100, 100);
		out.push(q);
	}
	if p.sched.fs_us != (1, 1) {
		let mut q = p.clone();
		q.sched.fs_us = (1, 1);
		out.push(q);
	}
	if p.sched.proc_ms != (1, 1) {
		let mut q = p.clone();
		q.sched.proc_ms = (1, 1);
		out.push(q);
	}
	if p.sched.zero_yield {
		let mut q = p.clone();
		q.sched.zero_yield = false;
		out.push(q);
	}
	if p.sched.lock_starved {
		let mut q = p.clone();
		q.sched.lock_starved = false;
		out.push(q);
	}
	if p.sched.chunk != d.chunk {
		let mut q = p.clone();
		q.sched.chunk = d.chunk;
		out.push(q);
	}
	if p.sched.map_salt != 0 {
		let mut q = p.clone();
		q.sched.map_salt = 0;
		out.push(q);
	}
	if p.sched.jitter != "seeded" {
		let mut q = p.clone();
		q.sched.jitter = "seeded".into();
		out.push(q);
	}
	// CA knobs back to default, whole then field by field
	for (i, c) in p.cas.iter().enumerate() {
		let dv = serde_json::to_value(Knobs::default()).unwrap();
		let cv = serde_json::to_value(&c.knobs).unwrap();
		if cv != dv {
			let mut q = p.clone();
			q.cas[i].knobs = Knobs::default();
			out.push(q);
			if let (Some(co), Some(dobj)) = (cv.as_object(), dv.as_object()) {
				for (k, v) in co.iter() {
					if dobj.get(k) != Some(v) {
						let mut nv = cv.clone();
						match dobj.get(k) {
							Some(x) => nv[k] = x.clone(),
							None => {
								nv.as_object_mut().unwrap().remove(k);
							}
						}
						if let Ok(kn) = serde_json::from_value::<Knobs>(nv) {
							let mut q = p.clone();
							q.cas[i].knobs = kn;
							out.push(q);
						}
					}
				}
			}
		}
	}
	// configuration simplifications
	if !p.world.pre_files.is_empty() {
		let mut q = p.clone();
		q.world.pre_files.clear();
		out.push(q);
	}
	if !p.config.rate_limits.is_empty() {
		let mut q = p.clone();
		q.config.rate_limits.clear();
		for e in q.config.endpoints.iter_mut() {
			e.rate_limits.clear();
		}
		out.push(q);
	}
	if !p.config.global.env.is_empty() || p.config.certificates.iter().any(|c| !c.env.is_empty()) {
		let mut q = p.clone();
		q.config.global.env.clear();
		for c in q.config.certificates.iter_mut() {
			c.env.clear();
			for i in c.identifiers.iter_mut() {
				i.env.clear();
			}
		}
		out.push(q);
	}
	for (i, h) in p.config.hooks.iter().enumerate() {
		if !h.exits.is_empty() {
			let mut q = p.clone();
			q.config.hooks[i].exits.clear();
			out.push(q);
		}
	}
	for (i, c) in p.config.certificates.iter().enumerate() {
		if c.key_type.as_deref() != Some("ecdsa-p256") && p.world.pre_files.is_empty() {
			let mut q = p.clone();
			q.config.certificates[i].key_type = Some("ecdsa-p256".into());
			out.push(q);
		}
		if !c.subject_attributes.is_empty() {
			let mut q = p.clone();
			q.config.certificates[i].subject_attributes.clear();
			out.push(q);
		}
		if c.renew_delay.is_some() || c.random_early_renew.is_some() {
			let mut q = p.clone();
			q.config.certificates[i].renew_delay = None;
			q.config.certificates[i].random_early_renew = None;
			out.push(q);
		}
	}
	for (i, a) in p.config.accounts.iter().enumerate() {
		if a.key_type.as_deref() != Some("ecdsa-p256") {
			let mut q = p.clone();
			q.config.accounts[i].key_type = Some("ecdsa-p256".into());
			out.push(q);
		}
	}
	out
}

pub fn minimise(plan: &Plan, prop: &str, key: &str, budget_s: u64) -> (Plan, u32, u32) {
	let t0 = Instant::now();
	let mut cur = plan.clone();
	let mut accepted = 0;
	let mut tried = 0;
	'outer: loop {
		let cands = candidates(&cur);
		for c in cands {
			if t0.elapsed().as_secs() >= budget_s {
				break 'outer;
			}
			tried += 1;
			if fails(&c, prop, key) {
				cur = c;
				accepted += 1;
				continue 'outer;
			}
		}
		break;
	}
	(cur, accepted, tried)
}

pub fn main(args: &[String]) -> i32 {
	let path = match arg(args, "--plan") {
		Some(p) => p,
		None => return 2,
	};
	let out = match arg(args, "--out") {
		Some(p) => p,
		None => return 2,
	};
	let prop = arg(args, "--props").unwrap_or_default();
	let key = arg(args, "--key").unwrap_or_default();
	let budget: u64 = arg(args, "--budget")
		.and_then(|s| s.parse().ok())
		.unwrap_or(60);
	let plan = match super::worker::load_plan(&path) {
		Ok(p) => p,
		Err(e) => {
			eprintln!("{}", e);
			return 2;
		}
	};
	if !fails(&plan, &prop, &key) {
		eprintln!(
			"shrink: the plan does not show violation {} (nondeterminism?)",
			key
		);
		return 2;
	}
	let (min, accepted, tried) = minimise(&plan, &prop, &key, budget);
	// the violation record as produced by the minimal plan
	let v = run_for(&min, &prop, &key);
	let doc = json!({
		"plan": min,
		"violation": v,
		"minimised": true,
		"shrink": {"accepted_steps": accepted, "candidates_tried": tried,
			"from": {"ops": plan.ops.len(), "faults": plan.faults.len(), "certificates": plan.config.certificates.len()},
			"to": {"ops": min.ops.len(), "faults": min.faults.len(), "certificates": min.config.certificates.len()}},
	});
	if std::fs::write(&out, serde_json::to_string_pretty(&doc).unwrap()).is_err() {
		return 2;
	}
	0
}
