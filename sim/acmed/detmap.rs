// Seam for the HashMap of main_event_loop.rs: iteration order (= the order in which the
// certificates' futures are first polled) becomes a deterministic function of the plan's salt and
// varies between plans, so the real program's arbitrary initial order is explored, not frozen.
use super::world;
use std::collections::HashMap;
use std::hash::{BuildHasher, Hash, Hasher};
use std::iter::FromIterator;
use std::ops::{Deref, DerefMut};

#[derive(Clone, Debug)]
pub struct Salted(u64);

impl Default for Salted {
	fn default() -> Self {
		let salt = if world::active() {
			world::with(|w| w.plan.sched.map_salt)
		} else {
			0
		};
		Salted(salt)
	}
}

pub struct SaltedHasher(u64);

impl Hasher for SaltedHasher {
	fn finish(&self) -> u64 {
		super::prng::splitmix64(self.0)
	}
	fn write(&mut self, bytes: &[u8]) {
		for b in bytes {
			self.0 = (self.0 ^ (*b as u64)).wrapping_mul(0x0000_0100_0000_01B3);
			self.0 = self.0.rotate_left(23);
		}
	}
}

impl BuildHasher for Salted {
	type Hasher = SaltedHasher;
	fn build_hasher(&self) -> SaltedHasher {
		SaltedHasher(super::prng::splitmix64(self.0 ^ 0xcbf2_9ce4_8422_2325))
	}
}

#[derive(Clone, Debug)]
pub struct DetMap<K, V>(HashMap<K, V, Salted>);

impl<K, V> DetMap<K, V> {
	pub fn new() -> Self {
		DetMap(HashMap::with_hasher(Salted::default()))
	}
}

impl<K, V> Default for DetMap<K, V> {
	fn default() -> Self {
		Self::new()
	}
}

impl<K, V> Deref for DetMap<K, V> {
	type Target = HashMap<K, V, Salted>;
	fn deref(&self) -> &Self::Target {
		&self.0
	}
}

impl<K, V> DerefMut for DetMap<K, V> {
	fn deref_mut(&mut self) -> &mut Self::Target {
		&mut self.0
	}
}

impl<K: Eq + Hash, V> FromIterator<(K, V)> for DetMap<K, V> {
	fn from_iter<I: IntoIterator<Item = (K, V)>>(iter: I) -> Self {
		let mut m = DetMap::new();
		for (k, v) in iter {
			m.0.insert(k, v);
		}
		m
	}
}

impl<K, V> IntoIterator for DetMap<K, V> {
	type Item = (K, V);
	type IntoIter = std::collections::hash_map::IntoIter<K, V>;
	fn into_iter(self) -> Self::IntoIter {
		self.0.into_iter()
	}
}

impl<'a, K, V> IntoIterator for &'a DetMap<K, V> {
	type Item = (&'a K, &'a V);
	type IntoIter = std::collections::hash_map::Iter<'a, K, V>;
	fn into_iter(self) -> Self::IntoIter {
		self.0.iter()
	}
}

impl<'a, K, V> IntoIterator for &'a mut DetMap<K, V> {
	type Item = (&'a K, &'a mut V);
	type IntoIter = std::collections::hash_map::IterMut<'a, K, V>;
	fn into_iter(self) -> Self::IntoIter {
		self.0.iter_mut()
	}
}
