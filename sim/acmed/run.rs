// Execute one plan: build the world, boot the daemon's own MainEventLoop on generated TOML, run the
// operation list under the executor, return the world (trace, CA state, scratch tree) for the
// monitors.  Panics of the daemon are caught and reported ("fatal under the shipped panic=abort").
use super::ca::Ca;
use super::exec::{self, DaemonFuture, Outcome};
use super::expect;
use super::plan::{EditItem, Op, Plan};
use super::toml_emit;
use super::world::{self, Ev, World};
use std::panic::{catch_unwind, AssertUnwindSafe};
use std::path::PathBuf;

pub struct RunResult {
	pub world: World,
	pub outcomes: Vec<String>,
	pub panic: Option<String>,
	pub harness_error: Option<String>,
}

pub fn scratch_base() -> PathBuf {
	let base = std::env::var("VERIF_SCRATCH").unwrap_or_else(|_| "/dev/shm".to_string());
	PathBuf::from(base).join(format!("acmed-verif-{}", std::process::id()))
}

thread_local! {
	static SCRATCH_BASE: PathBuf = scratch_base();
}

fn sync_cas(w: &mut World) {
	let idents: Vec<Vec<(String, String)>> = w
		.plan
		.config
		.certificates
		.iter()
		.map(expect::cert_wire_idents)
		.collect();
	let mut eab = std::collections::BTreeMap::new();
	for a in w.plan.config.accounts.iter() {
		if let Some(e) = &a.external_account {
			if let Ok(k) = super::util::b64u_decode(&e.key) {
				eab.insert(e.identifier.clone(), k);
			}
		}
	}
	for ca in w.cas.iter_mut() {
		ca.cert_idents = idents.clone();
		for (k, v) in eab.iter() {
			ca.eab_keys.insert(k.clone(), v.clone());
		}
	}
}

fn plant_pre_files(w: &mut World) -> Result<(), String> {
	use openssl::pkey::PKey;
	let pre = w.plan.world.pre_files.clone();
	let mut planted_keys: std::collections::BTreeMap<usize, PKey<openssl::pkey::Private>> =
		Default::default();
	for p in pre.iter() {
		let path = match toml_emit::path_of(&w.plan, &w.scratch, &p.target) {
			Some(p) => p,
			None => w.scratch.join(&p.target).to_string_lossy().to_string(),
		};
		let idx: Option<usize> = p.target.split(':').nth(1).and_then(|s| s.parse().ok());
		let (kind, arg) = match p.content.find(':') {
			Some(i) => (&p.content[..i], &p.content[i + 1..]),
			None => (p.content.as_str(), ""),
		};
		let data: Vec<u8> = match kind {
			"key" => {
				let kt: acme_common::crypto::KeyType = arg
					.parse()
					.map_err(|e: acme_common::error::Error| e.message)?;
				let kp = acme_common::crypto::gen_keypair(kt).map_err(|e| e.message)?;
				let pem = kp.private_key_to_pem().map_err(|e| e.message)?;
				if let Some(i) = idx {
					planted_keys.insert(i, kp.inner_key.clone());
				}
				pem
			}
			"garbage" => {
				let n: usize = arg.parse().unwrap_or(64);
				(0..n).map(|i| (b'a' + (i % 26) as u8)).collect()
			}
			"text" => arg.as_bytes().to_vec(),
			"empty" => vec![],
			"pair" => {
				let i = idx.ok_or("pair needs crt:<i>")?;
				let key = planted_keys
					.get(&i)
					.ok_or("pair needs a key planted before")?;
				let ids = expect::cert_wire_idents(&w.plan.config.certificates[i]);
				let dns: Vec<String> = ids
					.iter()
					.filter(|(t, _)| t == "dns")
					.map(|(_, v)| v.clone())
					.collect();
				let ips: Vec<String> = ids
					.iter()
					.filter(|(t, _)| t == "ip")
					.map(|(_, v)| v.clone())
					.collect();
				let life = if p.lifetime_s == 0 {
					90 * 86400
				} else {
					p.lifetime_s
				};
				super::ca::issue::issue_for_private(key, &dns, &ips, w.wall_unix(), life)?
					.into_bytes()
			}
			other => return Err(format!("unknown pre_file content {}", other)),
		};
		if let Some(parent) = std::path::Path::new(&path).parent() {
			std::fs::create_dir_all(parent).map_err(|e| e.to_string())?;
		}
		super::fs::touch(std::path::Path::new(&path), &data, p.mode.unwrap_or(0o600))
			.map_err(|e| e.to_string())?;
	}
	Ok(())
}

fn boot(w_scratch: &PathBuf) -> DaemonFuture {
	let cfg_path = w_scratch.join("acmed.toml").to_string_lossy().to_string();
	let n = world::with(|w| {
		w.boots += 1;
		let toml = toml_emit::emit(&w.plan.config, &w.plan.cas, &w.scratch);
		std::fs::write(&cfg_path, toml).expect("cannot write the generated configuration");
		let n = w.boots;
		note_account_files(w, "before_boot");
		w.push(Ev::Boot { n });
		n
	});
	Box::pin(async move {
		match crate::main_event_loop::MainEventLoop::new(&cfg_path, &[]).await {
			Ok(mut srv) => {
				world::with(|w| {
					w.accounts = srv
						.verif_accounts()
						.iter()
						.map(|(k, v)| (k.clone(), v.clone()))
						.collect();
					w.accounts.sort_by(|a, b| a.0.cmp(&b.0));
					let ids: Vec<String> = w
						.plan
						.config
						.certificates
						.iter()
						.map(toml_emit::cert_id)
						.collect();
					let pairs = ids
						.iter()
						.map(|id| std::rc::Rc::new(super::snap::pair(w, id)))
						.collect();
					w.push(Ev::BootOk { n, pairs });
					let snaps = super::snap::accounts(w);
					w.account_snaps.push((w.seq, "boot".to_string(), snaps));
				});
				srv.run().await;
			}
			Err(e) => {
				world::with(|w| {
					w.push(Ev::BootErr {
						n,
						msg: e.message.clone(),
					});
				});
			}
		}
	})
}

fn stop_daemon(daemon: &mut Option<DaemonFuture>, why: &str) {
	if daemon.is_some() {
		world::with(|w| {
			let snaps = super::snap::accounts(w);
			w.account_snaps
				.push((w.seq, format!("stop:{}", why), snaps));
		});
		*daemon = None; // drop the future = the process dies here
		exec::clear_timers();
		world::with(|w| w.accounts.clear());
		exec::note_stop(why);
		world::with(|w| note_account_files(w, "after_stop"));
	}
}

fn active_attempts(w: &World) -> bool {
	let mut open = std::collections::BTreeSet::new();
	for e in w.trace.iter() {
		match &e.ev {
			Ev::AttemptBegin { cert, .. } => {
				open.insert(cert.clone());
			}
			Ev::AttemptEnd { cert, .. } => {
				open.remove(cert);
			}
			Ev::Stopped { .. } | Ev::Boot { .. } => open.clear(),
			_ => {}
		}
	}
	!open.is_empty()
}

fn apply_edit(w: &mut World, patch: &[EditItem]) {
	for it in patch {
		match it {
			EditItem::Contacts { account, contacts } => {
				for a in w
					.plan
					.config
					.accounts
					.iter_mut()
					.filter(|a| &a.name == account)
				{
					a.contacts = contacts.clone();
				}
			}
			EditItem::KeyType { account, key_type } => {
				for a in w
					.plan
					.config
					.accounts
					.iter_mut()
					.filter(|a| &a.name == account)
				{
					a.key_type = Some(key_type.clone());
					a.signature_algorithm = None;
				}
			}
			EditItem::Eab { account, eab } => {
				for a in w
					.plan
					.config
					.accounts
					.iter_mut()
					.filter(|a| &a.name == account)
				{
					a.external_account = eab.clone();
				}
			}
			EditItem::CertIdentifiers { cert, identifiers } => {
				if let Some(c) = w.plan.config.certificates.get_mut(*cert) {
					c.identifiers = identifiers.clone();
				}
			}
			EditItem::CertKeyType { cert, key_type } => {
				if let Some(c) = w.plan.config.certificates.get_mut(*cert) {
					c.key_type = Some(key_type.clone());
				}
			}
			EditItem::GlobalModes {
				cert_file_mode,
				pk_file_mode,
			} => {
				w.plan.config.global.cert_file_mode = *cert_file_mode;
				w.plan.config.global.pk_file_mode = *pk_file_mode;
			}
		}
	}
	sync_cas(w);
}

fn run_ops(plan: &Plan, outcomes: &mut Vec<String>) -> Result<(), String> {
	let scratch = world::with(|w| w.scratch.clone());
	let mut daemon: Option<DaemonFuture> = None;
	for op in plan.ops.iter() {
		world::with(|w| {
			let what = serde_json::to_string(op).unwrap_or_default();
			w.push(Ev::Op { what });
		});
		match op {
			Op::Run {
				attempts,
				max_virtual_s,
				only,
			} => {
				if daemon.is_none() {
					daemon = Some(boot(&scratch));
				}
				let (base, ids, start) = world::with(|w| {
					let ids: Vec<String> = w
						.plan
						.config
						.certificates
						.iter()
						.enumerate()
						.filter(|(i, _)| only.is_empty() || only.contains(i))
						.map(|(_, c)| toml_emit::cert_id(c))
						.collect();
					(w.attempts_done.clone(), ids, w.mono)
				});
				let limit = if *max_virtual_s > 0 {
					Some(start + (*max_virtual_s as u128) * 1_000_000_000)
				} else {
					None
				};
				let want = *attempts;
				let mut stop = |w: &World| -> Option<String> {
					let done = ids.iter().all(|id| {
						w.attempts_done.get(id).copied().unwrap_or(0)
							>= base.get(id).copied().unwrap_or(0) + want
					});
					// loop guard: a certificate that renews continuously (e.g. the CA issues
					// already-expired certificates) must not spin until the event cap while another
					// one sleeps for months
					let spinning = w.attempts_done.iter().any(|(id, n)| {
						ids.contains(id) && *n >= base.get(id).copied().unwrap_or(0) + want + 12
					});
					if done {
						Some("attempts".to_string())
					} else if spinning {
						Some("attempt_cap".to_string())
					} else {
						None
					}
				};
				let o = exec::drive(daemon.as_mut().unwrap(), &mut stop, limit);
				outcomes.push(format!("{:?}", o));
				if o == Outcome::Finished || o == Outcome::Deadlock {
					let why = format!("{:?}", o);
					stop_daemon(&mut daemon, &why);
				}
			}
			Op::RunFor { virtual_s } => {
				if daemon.is_none() {
					daemon = Some(boot(&scratch));
				}
				let start = world::with(|w| w.mono);
				let limit = Some(start + (*virtual_s as u128) * 1_000_000_000);
				let mut stop = |_w: &World| -> Option<String> { None };
				let o = exec::drive(daemon.as_mut().unwrap(), &mut stop, limit);
				outcomes.push(format!("{:?}", o));
				if o == Outcome::Finished || o == Outcome::Deadlock {
					let why = format!("{:?}", o);
					stop_daemon(&mut daemon, &why);
				}
			}
			Op::Stop => stop_daemon(&mut daemon, "stop"),
			Op::CrashAt {
				kind,
				nth,
				max_virtual_s,
			} => {
				if daemon.is_none() {
					daemon = Some(boot(&scratch));
				}
				let start = world::with(|w| {
					w.crash_watch = Some((kind.clone(), *nth));
					w.mono
				});
				let limit = Some(start + (*max_virtual_s).max(1) as u128 * 1_000_000_000);
				let mut stop = |_w: &World| -> Option<String> { None };
				let o = exec::drive(daemon.as_mut().unwrap(), &mut stop, limit);
				outcomes.push(format!("{:?}", o));
				world::with(|w| {
					w.crash_watch = None;
					w.crash_now = false;
					if o == Outcome::CrashPoint {
						w.fired("crash.mid_operation");
					}
				});
				stop_daemon(&mut daemon, "crash");
			}
			Op::Edit { patch } => {
				world::with(|w| apply_edit(w, patch));
			}
			Op::CaForget { ca, account } => {
				world::with(|w| {
					// the account's key as the harness sees it (own JWK construction)
					let thumb = super::snap::accounts(w)
						.into_iter()
						.flatten()
						.find(|a| &a.name == account)
						.map(|a| a.thumb);
					let now = w.seq as u128; // event sequence number, not time: instants tie
					let n = match (w.cas.get_mut(*ca), &thumb) {
						(Some(c), Some(t)) if !t.is_empty() => c.forget_account(Some(t), now),
						(Some(c), _) => c.forget_account(None, now),
						_ => 0,
					};
					if n > 0 {
						w.fired("ca.forget_account");
					}
				});
			}
			Op::TruncateAccount { account, at } => {
				if daemon.is_some() {
					return Err("TruncateAccount while the daemon runs".into());
				}
				world::with(|w| {
					if let Some(p) =
						toml_emit::path_of(&w.plan, &w.scratch, &format!("account:{}", account))
					{
						if let Ok(f) = std::fs::OpenOptions::new().write(true).open(&p) {
							let full = f.metadata().map(|m| m.len()).unwrap_or(0);
							if *at < full {
								let _ = f.set_len(*at);
								w.fired("fs.truncate_account");
							}
						}
						note_account_files(w, "after_truncate");
					}
				});
			}
			Op::TruncateSweep { account, step } => {
				stop_daemon(&mut daemon, "stop");
				let path = world::with(|w| {
					toml_emit::path_of(&w.plan, &w.scratch, &format!("account:{}", account))
				});
				let path = match path {
					Some(p) => p,
					None => continue,
				};
				let original = match std::fs::read(&path) {
					Ok(b) => b,
					Err(_) => continue,
				};
				let mut at = 0u64;
				while (at as usize) < original.len() {
					let _ = std::fs::write(&path, &original[..at as usize]);
					world::with(|w| {
						w.fired("fs.truncate_account");
						note_account_files(w, "after_truncate");
					});
					daemon = Some(boot(&scratch));
					let start = world::with(|w| w.mono);
					let boots = world::with(|w| w.boots);
					let mut stop = |w: &World| -> Option<String> {
						let decided = w.trace.iter().rev().take(40).any(|e| match &e.ev {
							Ev::BootOk { n, .. } | Ev::BootErr { n, .. } => *n == boots,
							_ => false,
						});
						if decided {
							Some("boot_decided".into())
						} else {
							None
						}
					};
					let o = exec::drive(
						daemon.as_mut().unwrap(),
						&mut stop,
						Some(start + 5_000_000_000),
					);
					outcomes.push(format!("{:?}", o));
					stop_daemon(&mut daemon, "stop");
					let _ = std::fs::write(&path, &original);
					at += (*step).max(1);
				}
			}
			Op::RemoveFile { cert, which } => {
				world::with(|w| {
					if let Some(p) =
						toml_emit::path_of(&w.plan, &w.scratch, &format!("{}:{}", which, cert))
					{
						if std::fs::remove_file(&p).is_ok() {
							w.fired("fs.remove_file");
						}
					}
				});
			}
			Op::Skew { seconds } => {
				let busy = world::with(|w| active_attempts(w));
				if busy {
					return Err("Skew while an attempt is active (plan error)".into());
				}
				world::with(|w| {
					w.skew += *seconds;
					w.fired("clock.skew");
				});
			}
			Op::Knob { ca, patch } => {
				world::with(|w| {
					if let Some(c) = w.cas.get_mut(*ca) {
						let mut v = serde_json::to_value(&c.knobs).unwrap();
						if let (Some(o), Some(p)) = (v.as_object_mut(), patch.as_object()) {
							for (k, val) in p {
								o.insert(k.clone(), val.clone());
							}
						}
						if let Ok(k) = serde_json::from_value(v) {
							c.knobs = k;
						}
					}
				});
			}
		}
	}
	stop_daemon(&mut daemon, "end");
	Ok(())
}

pub fn run_plan(plan: &Plan) -> RunResult {
	let scratch = SCRATCH_BASE.with(|b| b.join(format!("r{}", plan.index % 4)));
	let _ = std::fs::remove_dir_all(&scratch);
	std::fs::create_dir_all(&scratch).expect("cannot create the scratch directory");
	// the process environment is exactly the plan's (env::vars() is read by the daemon's hooks)
	let keys: Vec<String> = std::env::vars_os()
		.map(|(k, _)| k.to_string_lossy().to_string())
		.collect();
	for k in keys {
		if k != "VERIF_SCRATCH"
			&& !k.starts_with("ACMED_VERIF")
			&& k != "RUST_BACKTRACE"
			&& k != "RUST_LOG"
		{
			std::env::remove_var(&k);
		}
	}
	for (k, v) in plan.world.proc_env.iter() {
		std::env::set_var(k, v);
	}
	unsafe {
		libc_umask(plan.world.umask);
	}
	async_lock::verif_set_lock_starved(plan.sched.lock_starved);
	async_lock::verif_set_clock(virtual_now_ns);
	// everything that is created once per process and may touch OpenSSL's RNG comes first, so that
	// the deterministic generator sees the same sequence of draws whether this plan is the first of
	// its process or the hundredth
	let _ = super::net::cached_client();
	super::ossl_rand::install(plan.seed ^ super::prng::splitmix64(plan.index.wrapping_add(77)));
	let mut w = World::new(plan.clone(), scratch.clone());
	for (i, c) in plan.cas.iter().enumerate() {
		w.cas.push(Ca::new(i, &c.host, c.knobs.clone()));
	}
	sync_cas(&mut w);
	let mut harness_error = plant_pre_files(&mut w).err();
	world::install(w);
	let mut outcomes = vec![];
	let mut panic_msg = None;
	if harness_error.is_none() {
		let r = catch_unwind(AssertUnwindSafe(|| run_ops(plan, &mut outcomes)));
		match r {
			Ok(Ok(())) => {}
			Ok(Err(e)) => harness_error = Some(e),
			Err(p) => {
				let msg = if let Some(s) = p.downcast_ref::<&str>() {
					s.to_string()
				} else if let Some(s) = p.downcast_ref::<String>() {
					s.clone()
				} else {
					"panic".to_string()
				};
				if msg.contains("harness error")
					|| msg.contains("there is no reactor running")
					|| msg.contains("no simulated world")
				{
					harness_error = Some(msg);
				} else {
					world::with(|w| {
						w.push(Ev::Panic { msg: msg.clone() });
					});
					panic_msg = Some(msg);
				}
				exec::clear_timers();
			}
		}
	}
	acme_common::verif_clock::set(None);
	let drawn = super::ossl_rand::uninstall();
	let mut w = world::take().expect("world vanished");
	w.count_n("probe.openssl_random_bytes_drawn", drawn);
	RunResult {
		world: w,
		outcomes,
		panic: panic_msg,
		harness_error,
	}
}

pub fn cleanup(r: &RunResult) {
	let _ = std::fs::remove_dir_all(&r.world.scratch);
}

extern "C" {
	fn umask(mask: u32) -> u32;
}
unsafe fn libc_umask(m: u32) {
	umask(m);
}

fn virtual_now_ns() -> u64 {
	if world::active() {
		world::with(|w| w.mono as u64)
	} else {
		0
	}
}

fn note_account_files(w: &mut World, when: &str) {
	let names: Vec<String> = w
		.plan
		.config
		.accounts
		.iter()
		.map(|a| a.name.clone())
		.collect();
	for n in names {
		if let Some(p) = toml_emit::path_of(&w.plan, &w.scratch, &format!("account:{}", n)) {
			if let Ok(b) = std::fs::read(&p) {
				let sha = super::util::sha256_hex(&b);
				w.push(Ev::FileNote {
					path: p,
					sha,
					len: b.len() as u64,
					when: when.to_string(),
				});
			}
		}
	}
}
