// Single-task executor with a virtual clock.  acmed has exactly one task (DESIGN.md 1.1), so the
// whole schedule space is the order in which outstanding timers / I/O completions fire, and this
// loop owns that order: poll; if nothing woke the task, pop the earliest timer (ties broken by a
// seeded draw), jump the clock, wake, poll again.
use super::world::{self, Ev};
use std::future::Future;
use std::pin::Pin;
use std::sync::atomic::{AtomicBool, Ordering};
use std::sync::Arc;
use std::task::{Context, Poll, Wake, Waker};

struct RootWake(AtomicBool);

impl Wake for RootWake {
	fn wake(self: Arc<Self>) {
		self.0.store(true, Ordering::SeqCst);
	}
	fn wake_by_ref(self: &Arc<Self>) {
		self.0.store(true, Ordering::SeqCst);
	}
}

thread_local! {
	static ROOT: Arc<RootWake> = Arc::new(RootWake(AtomicBool::new(true)));
}

#[derive(Clone, Debug, PartialEq)]
pub enum Outcome {
	/// the daemon future returned (MainEventLoop::new failed, or run() returned)
	Finished,
	/// the stop condition of the current op was met
	Stopped(String),
	/// pending, nothing woken, no timer: nothing can ever make progress
	Deadlock,
	EventCap,
	CrashPoint,
	/// the task keeps waking itself without producing any event or letting time pass
	Livelock,
}

pub type DaemonFuture = Pin<Box<dyn Future<Output = ()>>>;

/// Drive `fut` until `stop` says so (evaluated after every poll), the virtual-time `limit` is
/// reached, or nothing can make progress any more.
pub fn drive(
	fut: &mut DaemonFuture,
	stop: &mut dyn FnMut(&world::World) -> Option<String>,
	limit: Option<u128>,
) -> Outcome {
	// one root waker per thread, shared by all drives: FuturesUnordered remembers the waker of its
	// last poll, and a timer armed during an earlier drive must still reach the current loop
	let root = ROOT.with(|r| r.clone());
	root.0.store(true, Ordering::SeqCst);
	let waker = Waker::from(root.clone());
	let mut cx = Context::from_waker(&waker);
	let mut idle_polls = 0u32;
	let mut last_seq = 0u64;
	loop {
		if root.0.swap(false, Ordering::SeqCst) {
			world::with(|w| w.set_clock());
			if let Poll::Ready(()) = fut.as_mut().poll(&mut cx) {
				return Outcome::Finished;
			}
			let (crash, cap, mono, seq) = world::with(|w| {
				(
					w.crash_now,
					w.seq > w.plan.sched.max_events,
					w.mono,
					w.seq + w.timer_seq,
				)
			});
			let spinning = if seq == last_seq {
				idle_polls += 1;
				idle_polls >= 3
			} else {
				idle_polls = 0;
				last_seq = seq;
				false
			};
			if crash {
				world::with(|w| w.crash_now = false);
				return Outcome::CrashPoint;
			}
			if cap {
				return Outcome::EventCap;
			}
			if let Some(why) = world::with(|w| stop(w)) {
				return Outcome::Stopped(why);
			}
			if let Some(l) = limit {
				if mono >= l {
					return Outcome::Stopped("horizon".into());
				}
			}
			if !spinning {
				continue;
			}
			// The task keeps waking itself without producing an event (e.g. async-lock's readers
			// passing a notification round while a writer holds the lock).  On a real runtime that
			// is a busy spin during which time passes until the next external event; here polls
			// cost no virtual time, so jump to that event instead of polling for ever.
			world::with(|w| w.count("probe.busy_spin_until_next_event"));
			if world::with(|w| w.heap.is_empty()) {
				return Outcome::Livelock;
			}
			idle_polls = 0;
		}
		// nothing runnable: fire the earliest timer, unless it lies beyond the horizon
		let next = world::with(|w| w.heap.peek().map(|t| t.deadline));
		match (next, limit) {
			(None, _) => return Outcome::Deadlock,
			(Some(d), Some(l)) if d > l => {
				world::with(|w| {
					if w.mono < l {
						w.mono = l;
					}
				});
				return Outcome::Stopped("horizon".into());
			}
			_ => {}
		}
		let t = world::with(|w| {
			let t = w.heap.pop().unwrap();
			if t.deadline > w.mono {
				w.mono = t.deadline;
			}
			t
		});
		t.fired.set(true);
		t.waker.wake();
	}
}

/// Forget every outstanding timer (the daemon was dropped: its wakers are stale).
pub fn clear_timers() {
	world::with(|w| {
		w.heap.clear();
	});
}

pub fn note_stop(why: &str) {
	world::with(|w| {
		w.push(Ev::Stopped {
			why: why.to_string(),
		});
	});
}
