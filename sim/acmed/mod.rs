// acmed-sim: deterministic simulator with fault injection, compiled INTO the acmed binary crate
// (cfg feature breard_r_acmed_verif).  Entry point: `dispatch()`, called first thing in main();
// it does nothing unless ACMED_VERIF_RUN is set.  See /verif/DESIGN.md.
#![allow(dead_code)]
#![allow(clippy::all)]

pub mod ca;
pub mod child;
pub mod detmap;
pub mod exec;
pub mod expect;
pub mod fs;
pub mod gen;
pub mod monitors;
pub mod net;
pub mod ossl_rand;
pub mod plan;
pub mod prng;
pub mod process;
pub mod rng;
pub mod run;
pub mod shrink;
pub mod snap;
pub mod thread;
pub mod time;
pub mod toml_emit;
pub mod trace;
pub mod util;
pub mod worker;
pub mod world;

pub fn dispatch() -> bool {
	let mode = match std::env::var("ACMED_VERIF_RUN") {
		Ok(m) => m,
		Err(_) => return false,
	};
	let code = worker::main(&mode);
	std::process::exit(code);
}
