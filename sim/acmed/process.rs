// Process seam (replaces async_process::{Command, Stdio} in hooks.rs).  Everything above spawn() --
// template rendering, type filtering, ordering, environment assembly, allow_failure handling -- is
// the shipped code; the child itself is the simulated program "simhook", whose only effects are to
// leave an invocation record in the trace and optionally a line in its stdout file.
use super::plan::FaultKind;
use super::time::delay_ns;
use super::world::{self, Ev, HookRec};
use std::collections::BTreeMap;
use std::ffi::OsStr;
use std::io;
use std::rc::Rc;

pub enum Stdio {
	Null,
	Piped,
	Inherit,
	File(std::fs::File, Option<String>),
}

impl Stdio {
	pub fn null() -> Stdio {
		Stdio::Null
	}
	pub fn piped() -> Stdio {
		Stdio::Piped
	}
	pub fn inherit() -> Stdio {
		Stdio::Inherit
	}
}

fn fd_path(f: &std::fs::File) -> Option<String> {
	use std::os::unix::io::AsRawFd;
	std::fs::read_link(format!("/proc/self/fd/{}", f.as_raw_fd()))
		.ok()
		.map(|p| p.to_string_lossy().to_string())
}

impl From<std::fs::File> for Stdio {
	fn from(f: std::fs::File) -> Stdio {
		let p = fd_path(&f);
		Stdio::File(f, p)
	}
}

pub struct Command {
	prog: String,
	args: Vec<String>,
	envs: BTreeMap<String, String>,
	stdin: Stdio,
	stdout: Stdio,
	stderr: Stdio,
}

pub struct ChildStdin {
	id: u64,
}

pub struct Child {
	pub stdin: Option<ChildStdin>,
	id: u64,
	hook: String,
	nth_call: u64,
	stdout: Option<std::fs::File>,
}

#[derive(Clone, Copy, Debug)]
pub struct ExitStatus(Option<i32>);

impl ExitStatus {
	pub fn success(&self) -> bool {
		self.0 == Some(0)
	}
	pub fn code(&self) -> Option<i32> {
		self.0
	}
}

fn os(s: &OsStr) -> String {
	s.to_string_lossy().to_string()
}

impl Command {
	pub fn new<S: AsRef<OsStr>>(program: S) -> Command {
		Command {
			prog: os(program.as_ref()),
			args: Vec::new(),
			envs: BTreeMap::new(),
			stdin: Stdio::Inherit,
			stdout: Stdio::Inherit,
			stderr: Stdio::Inherit,
		}
	}

	pub fn arg<S: AsRef<OsStr>>(&mut self, a: S) -> &mut Command {
		self.args.push(os(a.as_ref()));
		self
	}

	pub fn args<I, S>(&mut self, args: I) -> &mut Command
	where
		I: IntoIterator<Item = S>,
		S: AsRef<OsStr>,
	{
		for a in args {
			self.args.push(os(a.as_ref()));
		}
		self
	}

	pub fn env<K: AsRef<OsStr>, V: AsRef<OsStr>>(&mut self, k: K, v: V) -> &mut Command {
		self.envs.insert(os(k.as_ref()), os(v.as_ref()));
		self
	}

	pub fn envs<I, K, V>(&mut self, vars: I) -> &mut Command
	where
		I: IntoIterator<Item = (K, V)>,
		K: AsRef<OsStr>,
		V: AsRef<OsStr>,
	{
		for (k, v) in vars {
			self.envs.insert(os(k.as_ref()), os(v.as_ref()));
		}
		self
	}

	pub fn stdin<T: Into<Stdio>>(&mut self, s: T) -> &mut Command {
		self.stdin = s.into();
		self
	}
	pub fn stdout<T: Into<Stdio>>(&mut self, s: T) -> &mut Command {
		self.stdout = s.into();
		self
	}
	pub fn stderr<T: Into<Stdio>>(&mut self, s: T) -> &mut Command {
		self.stderr = s.into();
		self
	}

	pub fn spawn(&mut self) -> io::Result<Child> {
		// which hook is this? the harness's hooks carry "hook=<name>" as first argument
		let hook = self
			.args
			.iter()
			.find(|a| a.starts_with("hook="))
			.map(|a| a[5..].to_string())
			.unwrap_or_default();
		let prog = self.prog.clone();
		let (spawn_fails, nth_call) = world::with(|w| {
			let n = {
				let c = w.hook_calls.entry(hook.clone()).or_insert(0);
				*c += 1;
				*c
			};
			let mut fail = prog != "simhook";
			if let Some(code) = planned_exit(w, &hook, n) {
				if code == -2 {
					fail = true;
				}
			}
			(fail, n)
		});
		if spawn_fails {
			world::with(|w| {
				w.fired("proc.spawn_enoent");
				w.push(Ev::SpawnFail { prog: prog.clone() });
			});
			return Err(io::Error::from_raw_os_error(2));
		}
		let mut env: BTreeMap<String, String> = std::env::vars().collect();
		for (k, v) in self.envs.iter() {
			env.insert(k.clone(), v.clone());
		}
		let take_path = |s: &Stdio| match s {
			Stdio::File(_, p) => p.clone(),
			_ => None,
		};
		let rec = HookRec {
			prog,
			argv: self.args.clone(),
			env,
			env_explicit: self.envs.clone(),
			stdin_piped: matches!(self.stdin, Stdio::Piped),
			stdout: take_path(&self.stdout),
			stderr: take_path(&self.stderr),
		};
		let out_file = match std::mem::replace(&mut self.stdout, Stdio::Null) {
			Stdio::File(f, _) => Some(f),
			_ => None,
		};
		let id = world::with(|w| {
			let id = w.id();
			w.push(Ev::HookSpawn {
				id,
				rec: Rc::new(rec),
			});
			id
		});
		let stdin = if matches!(self.stdin, Stdio::Piped) {
			Some(ChildStdin { id })
		} else {
			None
		};
		Ok(Child {
			stdin,
			id,
			hook,
			nth_call,
			stdout: out_file,
		})
	}
}

/// Exit status planned for the n-th (1-based) invocation of `hook`: fault table first, then the
/// hook's own `exits` cycle.
fn planned_exit(w: &mut world::World, hook: &str, n: u64) -> Option<i32> {
	for (f, _) in w.faults.iter() {
		if f.site == "proc" && f.hook == hook {
			let first = f.nth.max(1);
			let count = f.count.max(1);
			if n >= first && n < first.saturating_add(count) {
				if let FaultKind::Exit { code } = f.kind {
					return Some(code);
				}
			}
		}
	}
	for h in w.plan.config.hooks.iter() {
		if h.name == hook && !h.exits.is_empty() {
			return Some(h.exits[((n - 1) as usize) % h.exits.len()]);
		}
	}
	None
}

impl ChildStdin {
	pub async fn write_all(&mut self, data: &[u8]) -> io::Result<()> {
		let id = self.id;
		world::with(|w| {
			w.hook_stdin
				.entry(id)
				.or_insert_with(Vec::new)
				.extend_from_slice(data);
		});
		Ok(())
	}
}

impl Child {
	pub async fn status(&mut self) -> io::Result<ExitStatus> {
		// async-process closes stdin before waiting
		self.stdin = None;
		let id = self.id;
		let hook = self.hook.clone();
		let n = self.nth_call;
		let (ns, code) = world::with(|w| {
			let (lo, hi) = w.plan.sched.proc_ms;
			let ns = w.streams.range("proc.dur", lo, hi) as u128 * 1_000_000;
			let code = planned_exit(w, &hook, n).unwrap_or(0);
			(ns, code)
		});
		delay_ns(ns).await;
		// the simulated program's only side effect besides its record
		if let Some(f) = self.stdout.as_mut() {
			use std::io::Write;
			let _ = writeln!(f, "simhook {} ran", hook);
		}
		self.stdout = None;
		let st = if code < 0 { None } else { Some(code) };
		world::with(|w| {
			if code != 0 {
				let key = if code < 0 {
					"proc.signal".to_string()
				} else {
					"proc.exit_nonzero".to_string()
				};
				w.fired(&key);
			}
			w.push(Ev::HookExit { id, code: st });
		});
		Ok(ExitStatus(st))
	}
}
