// One simulated run = one process image.  The worker forks before every run; the child executes
// the plan and hands its record to the parent through a pipe, so that
//  * anything process-wide in the program under test (a `static` cache, a `OnceLock`, a lazily built
//    table) starts empty for every plan, exactly as in a freshly started daemon: a record never depends
//    on which plans ran earlier in the same worker (and a batch result always replays in a fresh process);
//  * a run that takes the whole process down (abort, stack overflow, SIGSEGV in a C library) is a
//    record with a violation, not a dead worker.
// The parent never runs daemon code: it only generates plans and forwards records.
use super::plan::Plan;
use super::run;
use super::worker::result_json;
use serde_json::{json, Value};

extern "C" {
	fn fork() -> i32;
	fn pipe(fds: *mut i32) -> i32;
	fn read(fd: i32, buf: *mut u8, n: usize) -> isize;
	fn write(fd: i32, buf: *const u8, n: usize) -> isize;
	fn close(fd: i32) -> i32;
	fn waitpid(pid: i32, status: *mut i32, options: i32) -> i32;
	fn _exit(code: i32) -> !;
	fn poll(fds: *mut PollFd, nfds: u64, timeout_ms: i32) -> i32;
	fn kill(pid: i32, sig: i32) -> i32;
}

#[repr(C)]
struct PollFd {
	fd: i32,
	events: i16,
	revents: i16,
}

/// (state letter, utime + stime in clock ticks) of a process, from /proc
fn proc_state(pid: i32) -> Option<(char, u64)> {
	let s = std::fs::read_to_string(format!("/proc/{}/stat", pid)).ok()?;
	// the command name (2nd field) is parenthesised and may contain spaces
	let rest = &s[s.rfind(')')? + 2..];
	let f: Vec<&str> = rest.split_whitespace().collect();
	let state = f.first()?.chars().next()?;
	let utime: u64 = f.get(11)?.parse().ok()?;
	let stime: u64 = f.get(12)?.parse().ok()?;
	Some((state, utime + stime))
}

/// Simulator-side objects that are expensive to build and hold no state of the program under test
/// (the reqwest client used only to *build* requests: 50-90 ms of CA-bundle parsing; the model CA's fixed
/// key hierarchy) are built once in the parent and inherited by every child, identical for all.
pub fn warm_parent() {
	let _ = super::net::cached_client();
	super::ca::issue::warm();
}

pub struct Isolated {
	/// the record (as produced by `result_json`, plus `plan` when asked for)
	pub record: Value,
	pub harness_error: bool,
}

fn write_all(fd: i32, mut b: &[u8]) {
	while !b.is_empty() {
		let n = unsafe { write(fd, b.as_ptr(), b.len()) };
		if n <= 0 {
			break;
		}
		b = &b[n as usize..];
	}
}

/// Run `plan` in a forked child.  `after` runs in the child with the result still alive (used by
/// replay --trace).
pub fn run_isolated(plan: &Plan, props: &[String], with_plan: bool, trace: bool) -> Isolated {
	warm_parent();
	let mut fds = [0i32; 2];
	if unsafe { pipe(fds.as_mut_ptr()) } != 0 {
		return Isolated { record: json!({"index": plan.index, "family": plan.family, "violations": [], "harness_error": "pipe() failed"}), harness_error: true };
	}
	use std::io::Write;
	let _ = std::io::stdout().flush();
	let _ = std::io::stderr().flush();
	let pid = unsafe { fork() };
	if pid < 0 {
		return Isolated { record: json!({"index": plan.index, "family": plan.family, "violations": [], "harness_error": "fork() failed"}), harness_error: true };
	}
	if pid == 0 {
		unsafe { close(fds[0]) };
		let r = run::run_plan(plan);
		let (mut v, viols) = result_json(plan, &r, props);
		if with_plan || !viols.is_empty() || r.harness_error.is_some() {
			v["plan"] = serde_json::to_value(plan).unwrap();
		}
		if trace {
			super::worker::print_trace(&r);
		}
		let herr = r.harness_error.is_some();
		run::cleanup(&r);
		let _ = std::fs::remove_dir_all(run::scratch_base());
		let line = v.to_string();
		write_all(fds[1], line.as_bytes());
		unsafe { close(fds[1]) };
		let _ = std::io::stderr().flush();
		unsafe { _exit(if herr { 3 } else { 0 }) };
	}
	unsafe { close(fds[1]) };
	let mut out: Vec<u8> = vec![];
	let mut buf = [0u8; 65536];
	// The simulated daemon never sleeps or blocks in real time (every timer, sleep, socket and child
	// is virtual), so a run process that sits in a blocking system call without consuming any CPU time
	// for `VERIF_HANG_S` seconds (default 30) is blocked for good: the one thread that polls every
	// renewal is parked (e.g. a blocking lock taken inside the task) and no attempt can ever terminate.
	// A process that is merely starved by machine load is runnable (state R), not sleeping, and is left alone.
	let hang_s: u64 = std::env::var("VERIF_HANG_S").ok().and_then(|s| s.parse().ok()).unwrap_or(30);
	let mut idle = 0u64;
	let mut last_cpu = u64::MAX;
	let mut blocked = false;
	loop {
		let mut pfd = PollFd { fd: fds[0], events: 1, revents: 0 };
		let r = unsafe { poll(&mut pfd, 1, 1000) };
		if r > 0 {
			let n = unsafe { read(fds[0], buf.as_mut_ptr(), buf.len()) };
			if n <= 0 {
				break;
			}
			out.extend_from_slice(&buf[..n as usize]);
			idle = 0;
			continue;
		}
		match proc_state(pid) {
			Some((state, cpu)) => {
				if (state == 'S' || state == 'D') && cpu == last_cpu {
					idle += 1;
				} else {
					idle = 0;
				}
				last_cpu = cpu;
			}
			None => idle = 0,
		}
		if idle >= hang_s {
			blocked = true;
			unsafe { kill(pid, 9) };
			break;
		}
	}
	unsafe { close(fds[0]) };
	let mut status = 0i32;
	unsafe { waitpid(pid, &mut status, 0) };
	if blocked {
		let base = std::env::var("VERIF_SCRATCH").unwrap_or_else(|_| "/dev/shm".to_string());
		let _ = std::fs::remove_dir_all(std::path::Path::new(&base).join(format!("acmed-verif-{}", pid)));
		let mut viols = vec![];
		for p in props.iter().filter(|p| *p == "C07" || *p == "C12") {
			viols.push(json!({"property": p, "kind": "daemon_thread_blocked", "cause": "", "phase": "",
				"detail": format!("the process running the daemon sat in a blocking system call without using any CPU time for {} s: the thread that polls every renewal is parked, no attempt can terminate", hang_s)}));
		}
		let tag = "blocked".to_string();
		return Isolated {
			record: json!({"index": plan.index, "family": plan.family, "violations": viols, "probes": {}, "faults_fired": {},
				"virtual_s": 0, "events": 0, "posts": 0, "issued": 0, "outcomes": [tag.clone()], "trace_hash": tag.clone(), "ileave_hash": tag,
				"nontrivial": {}, "panic": null, "harness_error": Value::Null,
				"plan": serde_json::to_value(plan).unwrap()}),
			harness_error: false,
		};
	}
	let signaled = (status & 0x7f) != 0 && (status & 0x7f) != 0x7f;
	let sig = status & 0x7f;
	let code = (status >> 8) & 0xff;
	// the child's scratch directory (named after its pid) if it could not clean up itself
	let base = std::env::var("VERIF_SCRATCH").unwrap_or_else(|_| "/dev/shm".to_string());
	let _ = std::fs::remove_dir_all(std::path::Path::new(&base).join(format!("acmed-verif-{}", pid)));
	if !signaled {
		if let Ok(v) = serde_json::from_slice::<Value>(&out) {
			return Isolated { record: v, harness_error: code == 3 };
		}
		return Isolated {
			record: json!({"index": plan.index, "family": plan.family, "violations": [],
				"harness_error": format!("run process exited with status {} without a record", code),
				"plan": serde_json::to_value(plan).unwrap()}),
			harness_error: true,
		};
	}
	// SIGABRT, SIGSEGV, SIGBUS, SIGILL, SIGFPE: the program under test took its process down
	let fatal = [6, 11, 7, 4, 8].contains(&sig);
	let mut viols = vec![];
	if fatal {
		for p in props.iter().filter(|p| *p == "C07" || *p == "C12") {
			viols.push(json!({"property": p, "kind": "process_killed", "cause": format!("signal{}", sig), "phase": "",
				"detail": format!("the process running the daemon died by signal {} (abort, stack overflow or memory fault)", sig)}));
		}
	}
	let tag = format!("died-signal-{}", sig);
	Isolated {
		record: json!({"index": plan.index, "family": plan.family, "violations": viols, "probes": {}, "faults_fired": {},
			"virtual_s": 0, "events": 0, "posts": 0, "issued": 0, "outcomes": [tag.clone()], "trace_hash": tag.clone(), "ileave_hash": tag,
			"nontrivial": {}, "panic": null,
			"harness_error": if fatal { Value::Null } else { json!(format!("run process killed by signal {}", sig)) },
			"plan": serde_json::to_value(plan).unwrap()}),
		harness_error: !fatal,
	}
}
