// Own IDNA helper (RFC 3492 Punycode encoder + A-label construction), shared by both simulators.
/// RFC 3492 Punycode encoder (section 6.3), for one label.
pub fn punycode(input: &str) -> Option<String> {
	const BASE: u32 = 36;
	const TMIN: u32 = 1;
	const TMAX: u32 = 26;
	const SKEW: u32 = 38;
	const DAMP: u32 = 700;
	const INITIAL_BIAS: u32 = 72;
	const INITIAL_N: u32 = 128;
	fn digit(d: u32) -> char {
		if d < 26 {
			(b'a' + d as u8) as char
		} else {
			(b'0' + (d - 26) as u8) as char
		}
	}
	fn adapt(mut delta: u32, numpoints: u32, first: bool) -> u32 {
		delta = if first { delta / DAMP } else { delta / 2 };
		delta += delta / numpoints;
		let mut k = 0;
		while delta > ((BASE - TMIN) * TMAX) / 2 {
			delta /= BASE - TMIN;
			k += BASE;
		}
		k + (((BASE - TMIN + 1) * delta) / (delta + SKEW))
	}
	let cps: Vec<u32> = input.chars().map(|c| c as u32).collect();
	let mut out = String::new();
	for c in cps.iter().filter(|c| **c < 128) {
		out.push(*c as u8 as char);
	}
	let b = out.len() as u32;
	let mut h = b;
	if b > 0 {
		out.push('-');
	}
	let mut n = INITIAL_N;
	let mut delta: u32 = 0;
	let mut bias = INITIAL_BIAS;
	while (h as usize) < cps.len() {
		let m = *cps.iter().filter(|c| **c >= n).min()?;
		delta = delta.checked_add((m - n).checked_mul(h + 1)?)?;
		n = m;
		for c in cps.iter() {
			if *c < n {
				delta = delta.checked_add(1)?;
			}
			if *c == n {
				let mut q = delta;
				let mut k = BASE;
				loop {
					let t = if k <= bias {
						TMIN
					} else if k >= bias + TMAX {
						TMAX
					} else {
						k - bias
					};
					if q < t {
						break;
					}
					out.push(digit(t + (q - t) % (BASE - t)));
					q = (q - t) / (BASE - t);
					k += BASE;
				}
				out.push(digit(q));
				bias = adapt(delta, h + 1, h == b);
				delta = 0;
				h += 1;
			}
		}
		delta += 1;
		n += 1;
	}
	Some(out)
}

/// A-label form of a configured DNS name: per label, lower-case, then Punycode with the ACE prefix
/// if the label is not ASCII.  Wildcard prefix kept.  (The generator only produces code points
/// for which "lower-case then Punycode" is unambiguously right, DESIGN.md C01.)
pub fn a_label_name(name: &str) -> String {
	name.split('.')
		.map(|l| {
			let low: String = l.chars().flat_map(|c| c.to_lowercase()).collect();
			if low.is_ascii() {
				low
			} else {
				format!("xn--{}", punycode(&low).unwrap_or_default())
			}
		})
		.collect::<Vec<_>>()
		.join(".")
}
