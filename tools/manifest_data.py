HOOK_COMMITS = ['90ef8131369020ffbcbbd132a434888efc7244ad', 'c3965489a2155725303452a52204e337af0fc775', 'f5babc4ae0bc378ca0a0220b06125a739d790f8d', 'c400ea4fdfa519e2aa8beaafd108abb44fa5cc89', '7783248e6b69ca2106b245a3bee9bc0536cb50d1', '191ca995cf4bf469787f00facfbb9b4555bc8ad1', 'b2cf05281b81c5d8139f9756728b323c893c7f2b', '8478a6efa0712fe300246d3289f39b3e7ed0135c', '352759c3f4015590085fbc6ae82e40cdd93d1d26', 'dd3cd9e5943258c2698d12866682ac164cbad76e', '36aadb26c4aef74ab24b58398112842b8de6a84b', '16d31c4428caca7a0eb6bd9de05410fa3a9a0fdf']

NOT_APPLICABLE = [
    {"property_id": "C14", "reason": "pure function from a configuration tree to effective settings and a start/refuse decision: no schedule, clock, fault or interleaving for a simulator to own; deciding it is input generation plus a differential resolver, which is another technique"},
    {"property_id": "C15", "reason": "pure function of a key (JWK members, thumbprint input, signature encoding): no nondeterminism to simulate; its protocol-visible consequences are enforced as side coverage by the model CA's independent verifier under C04/C05"},
    {"property_id": "C18", "reason": "chain building, trust-anchor and host-name validation happen inside reqwest/native-tls/OpenSSL below RequestBuilder::send, exactly the layer the transport seam replaces; exercising it needs real sockets and a real TLS server, i.e. observation of real executions, not simulation"},
    {"property_id": "C19", "reason": "totality over configuration inputs (malformed TOML, overflowing periods, cycles): decided by input generation/fuzzing; no schedule, clock or fault is quantified"},
    {"property_id": "C20", "reason": "the subject is external programs (mkdir, echo, chmod, rm, pkill, git, a daemonising tacd) reached by fork/exec; behind the process seam they would be my models, in front of it kernel-scheduled real processes the simulator neither controls nor replays"},
]

def chk(pid, engine, category, text, note, technique, design_ref):
    return {
        "property_id": pid,
        "quick_cmd": "./check %s quick" % pid,
        "thorough_cmd": "./check %s thorough" % pid,
        "evidence_file": "evidence/%s.json" % pid,
        "replay_cmd_template": "./check %s --replay {path}" % pid,
        "engine": engine,
        "level_claimed": {"category": category, "text": text, "design_ref": design_ref},
        "level_note": note,
        "technique": technique,
    }

SIM = "deterministic simulation with fault injection (seeded discrete-event simulator around the real acmed code, model CA as oracle)"
TRUST = "trusted base: the model CA and monitors (self-tested against RFC vectors), the seams replacing tokio/reqwest/async-process, real OpenSSL; a clean batch is evidence, not proof"

CHECKS = [
    chk("C08", "acmed-sim", "fault_enumeration",
        "exhaustive single-error-run grid: every POST position of a two-identifier issuance x 29 error answers x run lengths 1..12, plus never-ready objects at every polling phase; oracle = the CA's per-URL transmission log (count, newest nonce, identical content, outcome)",
        TRUST, SIM + "; exhaustive fault grid", "DESIGN.md 7 (C08)"),
]
