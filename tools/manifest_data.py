HOOK_COMMITS = ['90ef8131369020ffbcbbd132a434888efc7244ad', 'c3965489a2155725303452a52204e337af0fc775', 'f5babc4ae0bc378ca0a0220b06125a739d790f8d', 'c400ea4fdfa519e2aa8beaafd108abb44fa5cc89', '7783248e6b69ca2106b245a3bee9bc0536cb50d1', '191ca995cf4bf469787f00facfbb9b4555bc8ad1', 'b2cf05281b81c5d8139f9756728b323c893c7f2b', '8478a6efa0712fe300246d3289f39b3e7ed0135c', '352759c3f4015590085fbc6ae82e40cdd93d1d26', 'dd3cd9e5943258c2698d12866682ac164cbad76e', '36aadb26c4aef74ab24b58398112842b8de6a84b', '16d31c4428caca7a0eb6bd9de05410fa3a9a0fdf', '83d90a7a0b2eea536bab194166525a57f4fd5096']

NOT_APPLICABLE = [
    {"property_id": "C14", "reason": "pure function from a configuration tree to effective settings and a start/refuse decision: no schedule, clock, fault or interleaving for a simulator to own; deciding it is input generation plus a differential resolver, which is another technique"},
    {"property_id": "C15", "reason": "pure function of a key (JWK members, thumbprint input, signature encoding): no nondeterminism to simulate; its protocol-visible consequences are enforced as side coverage by the model CA's independent verifier under C04/C05"},
    {"property_id": "C18", "reason": "chain building, trust-anchor and host-name validation happen inside reqwest/native-tls/OpenSSL below RequestBuilder::send, exactly the layer the transport seam replaces; exercising it needs real sockets and a real TLS server, i.e. observation of real executions, not simulation"},
    {"property_id": "C19", "reason": "totality over configuration inputs (malformed TOML, overflowing periods, cycles): decided by input generation/fuzzing; no schedule, clock or fault is quantified"},
    {"property_id": "C20", "reason": "the subject is external programs (mkdir, echo, chmod, rm, pkill, git, a daemonising tacd) reached by fork/exec; behind the process seam they would be my models, in front of it kernel-scheduled real processes the simulator neither controls nor replays"},]

def chk(pid, engine, category, text, note, technique, design_ref):
    return {
        "property_id": pid,
        "quick_cmd": "./check %s quick" % pid,
        "thorough_cmd": "./check %s thorough" % pid,
        "evidence_file": "evidence/%s.json" % pid,
        "replay_cmd_template": "./check %s --replay {path}" % pid,
        "engine": engine,
        "level_claimed": {"category": category, "text": text, "design_ref": design_ref},
        "level_note": note,
        "technique": technique,
    }

SIM = "deterministic simulation with fault injection (seeded discrete-event simulator around the real acmed code, model CA as oracle)"
TRUST = "trusted base: the model CA and monitors (self-tested against RFC vectors), the seams replacing tokio/reqwest/async-process, real OpenSSL; a clean batch is evidence, not proof"

CHECKS = [
    chk("C01", "acmed-sim", "exploration",
        "seeded issuance swarm; the reference stands at the other party (model CA: newOrder identifiers against the harness's own IDNA/RFC 5952 expectation, CSR parsed from DER: self-signature, SAN multisets, subject, digest, key) and at the durable store (after success the stored key is the CSR's key); kp_reuse branches are storage states",
        TRUST + "; the input-space part of the quantifier is covered by seeded generation only", SIM + "; seeded configuration x CA-behaviour swarm", "DESIGN.md 7 (C01)"),
    chk("C02", "acmed-sim", "exploration",
        "seeded renewal and account histories in which successive contents differ in length both ways (chains of 1..4 certificates, restarts, removed files); every completed write through the storage seam is read back from the real file system and must equal exactly the bytes written; after every successful attempt the certificate file equals the CA's served body byte for byte and the key file is the CSR's key",
        TRUST + "; storage seam performs real open(2)/write(2) on a scratch directory (process-crash durability model, no power loss)", SIM + "; seeded history exploration", "DESIGN.md 7 (C02)"),
    chk("C03", "acmed-sim", "fault_enumeration",
        "exhaustive single-fault grid (4 base plans x 14 request positions x 65 network/CA fault kinds, two attempts each) plus seeded random multi-fault sequences; invariant checked on real files at the end of every attempt: certificate file present => parseable chain whose leaf key matches the key file; failed-before-download => a pre-existing matching pair is byte-identical",
        TRUST + "; only network/CA faults are injected (the statement's scope)", SIM + "; exhaustive single-fault grid + random multi-fault search", "DESIGN.md 7 (C03)"),
    chk("C04", "acmed-sim", "exploration",
        "every POST delivered by the transport seam in fault-free families is verified by the model CA's independent JWS verifier (shape, alg<->key, url, nonce ledger, jwk/kid discipline, signature from raw JWK members, fixed-width R||S), across 7 key types, badNonce/expiry answers, nonces on GET or not, EAB, account updates and key roll-overs",
        TRUST + "; judged on fault-free families only", SIM + "; oracle = independent verifier at the simulated peer", "DESIGN.md 7 (C04)"),
    chk("C05", "acmed-sim", "exploration",
        "seeded identifier/CA swarm plus every (base, wildcard) challenge-type pair in both declaration orders; oracle = the CA's own RFC 8555 section 8 / RFC 8737 computation from the registered JWK and issued token against the variables the hook process received, the hook type against the configuration entry the authorization is for, and the global event order of hook exit vs challenge POST",
        TRUST + "; the child process is a stub, everything above spawn() is shipped code", SIM + "; oracle at the simulated CA and process seam", "DESIGN.md 7 (C05)"),
    chk("C06", "acmed-sim", "exploration",
        "seeded renewal histories over up to 4000 virtual days; oracle on virtual arrival times of the next attempt against [max(t_eval, notAfter-renew_delay-random_early_renew), max(t_eval, notAfter-renew_delay)] with an explicit epsilon; lifetimes from expired to 10 years, delays from 0 to beyond the lifetime, SAN subsets/supersets/permutations, removed files, stepped wall clock, jitter at both ends",
        TRUST + "; wall-clock steps only while the daemon is stopped", SIM + "; virtual-time exploration", "DESIGN.md 7 (C06)"),
    chk("C07", "acmed-sim", "fault_enumeration",
        "exhaustive single-fault grid (network/CA), seeded multi-fault sequences over several attempts and multi-certificate plans with permanently failing subsets; oracles: no panic, no deadlock/livelock (executor detects), every attempt ends, exactly one faithful post-operation report per attempt, >= 1 s pause after a failure, healthy certificates issued once faults stop",
        TRUST + "; liveness judged only after the last fault; known findings listed in known_findings.txt", SIM + "; exhaustive single-fault grid + random multi-fault search", "DESIGN.md 7 (C07)"),
    chk("C08", "acmed-sim", "fault_enumeration",
        "exhaustive single-error-run grid: every POST position of a two-identifier issuance x 29 error answers x run lengths 1..12, plus never-ready objects at every polling phase; oracle = the CA's per-URL transmission log (count, newest nonce, identical content, outcome)",
        TRUST, SIM + "; exhaustive fault grid", "DESIGN.md 7 (C08)"),
    chk("C09", "acmed-sim", "exploration",
        "limiter swarm on one endpoint (1..3 limits, n in 1..20, periods 1 s..10 s and per-minute/hour, 1..6 certificates, 1..3 accounts, bursts, renewals, retry storms); every request of any kind is stamped with the virtual clock at the transport seam and every window (t-p, t] anchored at a request is counted exactly against every limit; liveness: all certificates issued within the budget",
        TRUST + "; exact check possible only because the simulator owns the clock", SIM + "; exact window check in virtual time", "DESIGN.md 7 (C09)"),
    chk("C10", "acmed-sim", "exploration",
        "generated hook tables (multi-typed hooks, nested groups, templates, allow_failure x exit codes incl. signals) x environment tables at four levels colliding with the process environment; an independent expansion model is compared batch by batch with the process seam's records: selection, order, one at a time, stop at first hard failure, argv/stdin/stdout rendering, environment precedence, pre/post x create/edit brackets around storage-seam writes, clean hooks after validated challenges",
        TRUST + "; the child process is a stub (simhook)", SIM + "; independent trace model over seeded configurations", "DESIGN.md 7 (C10)"),
    chk("C11", "acmed-sim", "exploration",
        "account histories (edits of contacts/key type/both/binding, restarts, renewals per endpoint, CA amnesia) of length <= 6 sampled and <= 4 exhaustively (thorough), crashes at the n-th storage/network/hook event incl. between chunks of an account save, and EVERY truncation offset of saved account files of 216 shapes; oracles: newAccount ledger (no stored URL / accountDoesNotExist / binding change), CA record == configuration after each successful renewal with at most one update per item, in-memory account before a quiescent stop == account loaded at the next boot, truncated file => refuse to start and file untouched",
        TRUST + "; restart = process-crash model (completed write(2)s survive; acmed never syncs, power loss not claimed)", SIM + "; history search with crash and truncation points", "DESIGN.md 7 (C11)"),
    chk("C12", "acmed-sim", "exploration",
        "2..8 certificates over 1..3 accounts and 1..3 endpoints in every sharing pattern under seeded completion orders (latencies, tie-breaks, zero-sleep yields, initial poll order, lock fairness mode), with raced first registration, CA-forgotten accounts and pending account changes; oracles: executor deadlock/livelock detectors, attempt termination, newAccount ledger, nonce ledger",
        TRUST + "; acmed has one task: the completion order owned by the executor is its whole schedule space (worker-thread counts are not a dimension); async-lock's fairness heuristic reads the virtual clock through a seam in the shadow build", SIM + "; seeded schedule search", "DESIGN.md 7 (C12)"),
    chk("C13", "acmed-sim", "exploration",
        "invariant at the storage seam, which performs the real open(2)/chown(2): every file written in seeded create/rewrite/restart histories is stat(2)ed; mode at creation == configured & ~umask, unchanged by rewrites; owner as configured by name or number",
        TRUST + "; runs as root in the sandbox; weakest fit for the technique (no schedule or fault in the statement)", SIM + "; invariant over seeded histories", "DESIGN.md 7 (C13)"),
    dict(chk("C16", "tacd-sim", "exploration",
        "each run starts the real tacd binary (shadow build, shipped profile) with drawn arguments -- domain (ASCII/IDN/mixed case, 1..5 labels), 32-byte digest rendered through the acmeIdentifier text format, key type x digest x input source (flag, file, stdin) as an exhaustive grid plus seeded samples -- and an inspecting OpenSSL client on the simulated transport judges the handshake: ALPN acme-tls/1 negotiated, certificate self-signed and currently valid, exactly one SAN == A-label by the harness's own IDNA, acmeIdentifier critical with exactly the digest (own DER walk), key type; clients offering only other protocols must be refused",
        "trusted base: OpenSSL (client and server), the harness's IDNA and DER walker; the real TCP/unix listeners are a stub; weak fit for the technique (no fault or schedule in the statement), claimed because its oracle is the simulated peer C17 needs anyway", "deterministic simulation (real tacd process over a simulated listener with a scripted, seeded client); seeded input exploration + exhaustive option grid", "DESIGN.md 7 (C16)"), engine="tacd-sim"),
    dict(chk("C17", "tacd-sim", "fault_enumeration",
        "every ordered selection of <= 2 (quick) / <= 3 (thorough) connection behaviours from a catalogue of 9 (connect+close, garbage, plain HTTP, TLS without ALPN, TLS with foreign ALPN, abandoned after ClientHello, 50 concurrent stalled connections, byte-at-a-time delivery, reset mid-record), plus sampled histories of length 3-4, sequential or overlapping under a seeded scheduler that releases one parked handler thread at a time; then a valid acme-tls/1 handshake judged by C16's oracle; the run is one real tacd process in the shipped panic=abort profile: death by signal or a wrong final answer is the violation",
        "trusted base: OpenSSL, the SimListener/SimStream seam (handler threads are real, their interleaving is decided by the simulator); the shipped panic strategy is read from /repo/Cargo.toml at build time", "deterministic simulation with fault injection (hostile connection histories on a simulated transport against the real tacd process); exhaustive short histories + seeded longer ones", "DESIGN.md 7 (C17)"), engine="tacd-sim"),
]
