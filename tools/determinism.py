"""Determinism proof: every (family, seed, index) is run twice in fresh processes, under different
worker layouts, and the normalised trace hashes must agree (DESIGN.md 9.1)."""
import json, subprocess


def run(acmed, env_fn, fam, seed, lo, hi, props="C07"):
    cmd = [acmed, "--family", fam, "--seed", str(seed), "--from", str(lo), "--to", str(hi), "--props", props]
    r = subprocess.run(cmd, env=env_fn({"ACMED_VERIF_RUN": "batch"}), capture_output=True, text=True)
    out = {}
    for line in r.stdout.splitlines():
        try:
            j = json.loads(line)
        except Exception:
            continue
        if "index" in j:
            out[j["index"]] = (j["trace_hash"], j["events"], j["virtual_s"], json.dumps(sorted(set("|".join([v["property"], v["kind"], v.get("cause", ""), v.get("phase", "")]) for v in j["violations"]))))
    return r.returncode, out


def check_determinism(acmed, env_fn, families, seeds, count, log):
    bad = 0
    total = 0
    for fam in families:
        for s in range(seeds):
            seed = 1000 + s
            # layout A: one process for the whole range; layout B: one process per index, reversed
            ca, a = run(acmed, env_fn, fam, seed, 0, count)
            if ca != 0:
                log("determinism: worker failed for", fam, seed)
                return False
            for i in reversed(range(count)):
                if i not in a:
                    continue
                cb, b = run(acmed, env_fn, fam, seed, i, i + 1)
                total += 1
                if cb != 0 or b.get(i) != a.get(i):
                    bad += 1
                    log("NONDETERMINISM family=%s seed=%d index=%d: %s vs %s" % (fam, seed, i, a.get(i), b.get(i)))
    log("determinism: %d plans run twice in different process layouts, %d mismatches" % (total, bad))
    return bad == 0
