#!/usr/bin/env python3
"""Check driver: rebuilds the shadow workspace from /repo's working tree, runs a property's
scenario families on worker processes, matches violations against known_findings.txt, minimises and
re-plays new ones in a fresh process, writes the evidence file.  Exit 0 = held on everything
explored, 1 = VIOLATION printed, 2 = harness error.  (DESIGN.md section 10)"""
import json, os, subprocess, sys, time, hashlib, shutil, signal

HERE = os.path.dirname(os.path.dirname(os.path.abspath(__file__)))
SHADOW = os.path.join(HERE, "shadow")
ACMED = os.path.join(SHADOW, "target", "sim", "acmed")
TACD = os.path.join(SHADOW, "target", "ship", "tacd")
EVID = os.path.join(HERE, "evidence")
REPLAYS = os.path.join(HERE, "replays")
FINDINGS = os.path.join(HERE, "findings")
KNOWN = os.path.join(HERE, "known_findings.txt")
NPROC = int(os.environ.get("VERIF_JOBS", "16"))

sys.path.insert(0, os.path.dirname(os.path.abspath(__file__)))
from recipes import RECIPES, LEVELS, REAL_STUB  # noqa: E402


def log(*a):
    print(*a, file=sys.stderr, flush=True)


def build(which=("acmed",)):
    t0 = time.time()
    r = subprocess.run([sys.executable, os.path.join(HERE, "tools", "gen_shadow.py")], capture_output=True, text=True)
    if r.returncode != 0:
        log(r.stdout, r.stderr)
        return False
    # the binaries the checks run are SHADOW/target/...: never let an inherited CARGO_TARGET_DIR
    # (or RUSTFLAGS etc.) send the build elsewhere and leave a stale binary behind
    env = dict(os.environ, CARGO_NET_OFFLINE="true", CARGO_TARGET_DIR=os.path.join(SHADOW, "target"))
    for k in ("RUSTFLAGS", "CARGO_BUILD_TARGET", "CARGO_ENCODED_RUSTFLAGS"):
        env.pop(k, None)
    for crate in which:
        prof = "sim" if crate == "acmed" else "ship"
        r = subprocess.run(["cargo", "build", "--offline", "--profile", prof, "-p", crate], cwd=SHADOW, env=env,
                           capture_output=True, text=True)
        if r.returncode != 0:
            log("BUILD FAILED (%s):\n%s" % (crate, r.stderr[-6000:]))
            return False
    log("build ok in %.1fs" % (time.time() - t0))
    return True


def worker_env(extra=None):
    env = {"PATH": os.environ.get("PATH", "/usr/bin:/bin")}
    for k in ("VERIF_SCRATCH", "ACMED_VERIF_VERBOSE", "ACMED_VERIF_LOG", "LD_LIBRARY_PATH"):
        if k in os.environ:
            env[k] = os.environ[k]
    if extra:
        env.update(extra)
    return env


def selftest():
    r = subprocess.run([ACMED], env=worker_env({"ACMED_VERIF_RUN": "selftest"}), capture_output=True, text=True)
    if r.returncode != 0:
        log("oracle self-test failed:\n" + r.stdout + r.stderr)
        return False
    return True


def parse_known():
    """known_findings.txt -> list of dicts {property, fields{}, plan, text}; `fixed:` lines match nothing."""
    out = []
    if not os.path.exists(KNOWN):
        return out
    for line in open(KNOWN):
        line = line.strip()
        if not line.startswith("known:"):
            continue
        body = line[len("known:"):].strip()
        head, _, text = body.partition(" -- ")
        fields = {}
        for tok in head.split():
            if "=" in tok:
                k, v = tok.split("=", 1)
                fields[k] = v
        plan = fields.pop("plan", None)
        out.append({"property": fields.get("property"), "fields": fields, "plan": plan, "text": text.strip()})
    return out


def matches(known, viol):
    for k, v in known["fields"].items():
        if str(viol.get(k, "")) not in v.split("|"):
            return False
    return True


JOB_TIMEOUT = int(os.environ.get("VERIF_JOB_TIMEOUT", "5400"))


def die_with_parent():
    """workers never outlive the driver (PR_SET_PDEATHSIG = 1)"""
    try:
        import ctypes
        ctypes.CDLL("libc.so.6", use_errno=True).prctl(1, signal.SIGKILL)
    except Exception:
        pass


def run_batches(prop, jobs):
    """jobs: list of (family, seed, from, to). Returns list of per-plan records."""
    recs = []
    procs = []
    pending = list(jobs)
    harness = []

    def start(job):
        fam, seed, lo, hi, samples = job
        cmd = [ACMED, "--family", fam, "--seed", str(seed), "--from", str(lo), "--to", str(hi), "--props", prop,
               "--samples", str(samples)]
        p = subprocess.Popen(cmd, env=worker_env({"ACMED_VERIF_RUN": "batch"}), stdout=subprocess.PIPE,
                             stderr=subprocess.PIPE, text=True, preexec_fn=die_with_parent)
        return (p, job)

    import threading
    lock = threading.Lock()

    def pump(p, job):
        try:
            out, err = p.communicate(timeout=JOB_TIMEOUT)
        except subprocess.TimeoutExpired:
            p.kill()
            out, err = p.communicate()
            with lock:
                harness.append("worker %s exceeded %d s of wall time and was killed" % (job, JOB_TIMEOUT))
        with lock:
            for line in out.splitlines():
                try:
                    recs.append(json.loads(line))
                except Exception:
                    harness.append("unparseable worker output: %r" % line[:200])
            if p.returncode not in (0,):
                harness.append("worker %s exited %s: %s" % (job, p.returncode, err[-2000:]))

    threads = []
    running = []
    while pending or running:
        while pending and len(running) < NPROC:
            p, job = start(pending.pop(0))
            t = threading.Thread(target=pump, args=(p, job))
            t.start()
            running.append(t)
        running = [t for t in running if t.is_alive()]
        time.sleep(0.02)
    return recs, harness


def split_jobs(fam, seed, count, samples_total):
    per = max(1, (count + NPROC * 4 - 1) // (NPROC * 4))
    jobs = []
    lo = 0
    first = True
    while lo < count:
        hi = min(count, lo + per)
        jobs.append((fam, seed, lo, hi, samples_total if first else 0))
        first = False
        lo = hi
    return jobs


def replay(prop, path, trace=False):
    cmd = [ACMED, "--plan", path, "--props", prop] + (["--trace"] if trace else [])
    r = subprocess.run(cmd, env=worker_env({"ACMED_VERIF_RUN": "replay"}), capture_output=True, text=True)
    rec = None
    for line in r.stdout.splitlines():
        try:
            rec = json.loads(line)
        except Exception:
            pass
    return r.returncode, rec, r.stderr


def shrink(prop, plan, viol, out_path):
    os.makedirs(os.path.dirname(out_path), exist_ok=True)
    tmp = out_path + ".in"
    with open(tmp, "w") as f:
        json.dump({"plan": plan, "violation": viol}, f)
    cmd = [ACMED, "--plan", tmp, "--props", prop, "--key", "|".join([viol["property"], viol["kind"], viol.get("cause", ""), viol.get("phase", "")]),
           "--out", out_path]
    r = subprocess.run(cmd, env=worker_env({"ACMED_VERIF_RUN": "shrink"}), capture_output=True, text=True, timeout=900)
    os.remove(tmp)
    if r.returncode != 0 or not os.path.exists(out_path):
        # fall back to the unminimised plan
        with open(out_path, "w") as f:
            json.dump({"plan": plan, "violation": viol, "minimised": False}, f, indent=1)
    return out_path


def vkey(v):
    return "|".join([v["property"], v["kind"], v.get("cause", ""), v.get("phase", "")])


def main():
    args = sys.argv[1:]
    if not args:
        log("usage: driver.py setup | <Cxx> quick|thorough | <Cxx> --replay FILE")
        return 2
    if args[0] == "setup":
        if not build(("acmed", "tacd")):
            return 2
        if not selftest():
            return 2
        from determinism import check_determinism
        ok = check_determinism(ACMED, worker_env, families=["smoke", "F3m", "F5", "F1h", "F6"], seeds=2, count=8, log=log)
        return 0 if ok else 2
    prop = args[0]
    if prop in ("C16", "C17"):
        import tacd_driver
        return tacd_driver.main(prop, args[1:], build, log)
    if prop not in RECIPES:
        log("no check for", prop)
        return 2
    if not build(("acmed",)):
        return 2
    if len(args) >= 3 and args[1] == "--replay":
        code, rec, err = replay(prop, args[2], trace=True)
        sys.stderr.write(err)
        if rec is None:
            return 2
        mine = [v for v in rec.get("violations", []) if v["property"] == prop]
        for v in mine:
            print("VIOLATION property=%s replay=%s  # %s" % (prop, args[2], json.dumps(v)))
        print(json.dumps({k: rec[k] for k in rec if k != "plan"}))
        return 1 if mine else (2 if code == 2 else 0)
    tier = args[1] if len(args) > 1 else os.environ.get("VERIF_TIER", "quick")
    seed = int(os.environ.get("VERIF_SEED", "20260927"))
    log("VERIF_SEED=%d property=%s tier=%s jobs=%d" % (seed, prop, tier, NPROC))
    if not selftest():
        return 2
    t0 = time.time()
    known = [k for k in parse_known() if k["property"] == prop]
    exit_code = 0
    known_hits = set()
    # 1. listed findings are re-observed deterministically from their committed plans
    for i, k in enumerate(known):
        if not k["plan"]:
            continue
        path = os.path.join(HERE, k["plan"])
        code, rec, err = replay(prop, path)
        if rec is None or code == 2:
            log("harness error replaying %s: %s" % (path, err[-500:]))
            return 2
        hit = [v for v in rec["violations"] if v["property"] == prop and matches(k, v)]
        if hit:
            known_hits.add(i)
            print("KNOWN-FINDING: property=%s %s" % (prop, k["text"]))
        else:
            log("note: listed finding no longer reproduces from %s (defect gone?)" % k["plan"])
    # 2. the batches
    recipe = RECIPES[prop][tier]
    all_recs = []
    harness = []
    for fam, count in recipe:
        recs, h = run_batches(prop, split_jobs(fam, seed, count, 3))
        all_recs += [r for r in recs if "index" in r]
        ends = [r["end_of_family"] for r in recs if "end_of_family" in r]
        if ends:
            # a finite (grid) family was enumerated to its end: that part of the run is exhaustive
            GRID_SIZES[fam] = min(ends)
        harness += h
    if harness:
        for h in harness[:5]:
            log("HARNESS ERROR:", h)
        return 2
    herr = [r for r in all_recs if r.get("harness_error")]
    if herr:
        log("HARNESS ERROR in plan %s/%s: %s" % (herr[0]["family"], herr[0]["index"], herr[0]["harness_error"]))
        return 2
    # 3. violations
    new = {}
    known_seen = {}
    for r in all_recs:
        for v in r["violations"]:
            if v["property"] != prop:
                continue
            ks = [i for i, k in enumerate(known) if matches(k, v)]
            if ks:
                known_seen.setdefault(ks[0], 0)
                known_seen[ks[0]] += 1
                continue
            new.setdefault(vkey(v), (v, r))
    for i, n in known_seen.items():
        if i not in known_hits:
            known_hits.add(i)
            print("KNOWN-FINDING: property=%s %s" % (prop, known[i]["text"]))
    os.makedirs(REPLAYS, exist_ok=True)
    n_viol = 0
    MAX_REPORT = 8
    for key, (v, r) in sorted(new.items()):
        if n_viol >= MAX_REPORT:
            n_viol += 1
            continue
        plan = r.get("plan")
        if plan is None:
            log("HARNESS ERROR: violation without plan", v)
            return 2
        out = os.path.join(REPLAYS, "%s-%d-%s-%d.json" % (prop, seed, r["family"], r["index"]))
        shrink(prop, plan, v, out)
        code, rec, err = replay(prop, out)
        again = rec and [x for x in rec["violations"] if vkey(x) == key]
        if not again:
            # the minimised plan must fail identically in a fresh process; fall back to the original
            with open(out, "w") as f:
                json.dump({"plan": plan, "violation": v, "minimised": False}, f, indent=1)
            code, rec, err = replay(prop, out)
            again = rec and [x for x in rec["violations"] if vkey(x) == key]
            if not again:
                log("HARNESS ERROR: violation %s does not reproduce on replay (nondeterminism)" % key)
                return 2
        print("VIOLATION property=%s replay=%s  # %s" % (prop, out, json.dumps(v)))
        n_viol += 1
        exit_code = 1
    if n_viol > MAX_REPORT:
        log("(%d further distinct violations not minimised/reported individually)" % (n_viol - MAX_REPORT))
    write_evidence(prop, tier, seed, all_recs, recipe, time.time() - t0, n_viol, known_seen)
    log("%s %s: %d runs, %d violations, %d known-finding hits, %.1fs" % (prop, tier, len(all_recs), n_viol, sum(known_seen.values()), time.time() - t0))
    return exit_code


GRID_SIZES = {}


def write_evidence(prop, tier, seed, recs, recipe, wall, n_viol, known_seen):
    os.makedirs(EVID, exist_ok=True)
    probes, faults = {}, {}
    hashes, ileaves = set(), set()
    nontrivial_hashes = set()
    virt = 0
    events = 0
    posts = 0
    samples = []
    per_family = {}
    for r in recs:
        for k, v in r.get("probes", {}).items():
            probes[k] = probes.get(k, 0) + v
        for k, v in r.get("faults_fired", {}).items():
            faults[k] = faults.get(k, 0) + v
        hashes.add(r["trace_hash"])
        ileaves.add(r["ileave_hash"])
        if r.get("nontrivial", {}).get(prop):
            nontrivial_hashes.add(r["trace_hash"])
        virt += r.get("virtual_s", 0)
        events += r.get("events", 0)
        posts += r.get("posts", 0)
        per_family[r["family"]] = per_family.get(r["family"], 0) + 1
        if "plan" in r and len(samples) < 3 and not r["violations"]:
            p = r["plan"]
            samples.append({"family": r["family"], "index": r["index"], "ops": p.get("ops"), "faults": p.get("faults", []),
                            "certificates": [[(i.get("dns") or i.get("ip")) + ":" + i["challenge"] for i in c["identifiers"]] for c in p["config"]["certificates"]],
                            "cas": [c["knobs"] for c in p["cas"]][:1], "sched": p.get("sched"),
                            "outcome": {"virtual_s": r["virtual_s"], "events": r["events"], "issued": r.get("issued"), "trace_hash": r["trace_hash"]}})
    if not samples:
        samples = [{"family": r["family"], "index": r["index"], "trace_hash": r["trace_hash"]} for r in recs[:3]]
    level = LEVELS[prop]["category"]
    runs_per_hour = int(len(recs) / wall * 3600) if wall > 0 else 0
    ev = {
        "property_id": prop,
        "tier": tier,
        "seed": seed,
        "level": level,
        "coverage": {
            "evaluations": len(recs),
            "distinct_nontrivial": len(nontrivial_hashes),
            "rule": LEVELS[prop]["rule"],
            "samples": samples,
            "exhaustive": bool(recipe) and all(f in GRID_SIZES and per_family.get(f, 0) >= GRID_SIZES[f] for f, _ in recipe),
            "exhaustively_enumerated_families": {f: n for f, n in GRID_SIZES.items() if per_family.get(f, 0) >= n},
            "runs_per_family": per_family,
            "distinct_traces": len(hashes),
            "distinct_interleavings": len(ileaves),
            "interleaving_measure": "sha256 of the per-run sequence of (resource, event kind) without times",
            "simulated_seconds": virt,
            "simulated_days": round(virt / 86400.0, 1),
            "events": events,
            "acme_posts_verified": posts,
            "runs_per_hour": runs_per_hour,
            "seeds_per_hour": runs_per_hour,
            "fault_kinds_fired": faults,
            "reach_probes": probes,
            "known_finding_hits": {str(k): v for k, v in known_seen.items()},
            "real_vs_stub": REAL_STUB,
        },
        "assumptions": LEVELS[prop]["assumptions"],
        "wall_s": round(wall, 2),
        "violations": n_viol,
    }
    with open(os.path.join(EVID, prop + ".json"), "w") as f:
        json.dump(ev, f, indent=1, sort_keys=True)


if __name__ == "__main__":
    sys.exit(main())
