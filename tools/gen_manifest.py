#!/usr/bin/env python3
"""Regenerate MANIFEST.json from tools/manifest_data.py (single source of truth for claims)."""
import json, os, sys
HERE = os.path.dirname(os.path.dirname(os.path.abspath(__file__)))
sys.path.insert(0, os.path.join(HERE, "tools"))
from manifest_data import CHECKS, NOT_APPLICABLE, HOOK_COMMITS

m = {
    "version": 1,
    "setup_cmd": "./check --setup",
    "hooks": {
        "guard": "cargo feature breard_r_acmed_verif (declared empty in acmed, acme_common and tacd; off by default)",
        "enable": "python3 tools/gen_shadow.py generates /verif/shadow (same package names, absolute /repo source paths, feature on, "
                  "extra deps http+openssl, copy of /repo/Cargo.lock); cargo build --offline --profile sim -p acmed / --profile ship -p tacd",
        "baseline_off_cmd": "cd /repo && cargo test --workspace --no-fail-fast --offline",
        "source_commits": HOOK_COMMITS,
        "add_only": True,
    },
    "engines": [
        {"name": "acmed-sim", "path": "sim/acmed", "serves_properties": [c["property_id"] for c in CHECKS if c.get("engine") == "acmed-sim"],
         "kind_free_text": "deterministic discrete-event simulation compiled into the acmed binary: own single-task executor with virtual clock, "
                           "seams for transport/timers/clock/storage/processes/rng/map order, strict model CA as reference, seeded fault injection, "
                           "plan files as replay, in-process minimiser"},
        {"name": "tacd-sim", "path": "sim/tacd", "serves_properties": [c["property_id"] for c in CHECKS if c.get("engine") == "tacd-sim"],
         "kind_free_text": "the real tacd binary (shipped panic profile) over a simulated listener: handler threads are real but released one at a "
                           "time by a seeded scheduler; clients are OpenSSL state machines over in-memory streams"},
    ],
    "checks": CHECKS,
    "not_applicable": NOT_APPLICABLE,
    "notes": "Technique family: deterministic simulation with fault injection. See DESIGN.md.",
}
with open(os.path.join(HERE, "MANIFEST.json"), "w") as f:
    json.dump(m, f, indent=1)
print("MANIFEST.json written:", len(CHECKS), "checks,", len(NOT_APPLICABLE), "not applicable")
