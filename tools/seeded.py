#!/usr/bin/env python3
"""Seeded-change bookkeeping.
  seeded.py confirm <name> <prop> <outdir> <worktree>   -- re-verify a sub-agent's change in a scratch worktree
                                                             and copy it to /verif/seeded/<name>/
  seeded.py try <name> [quick|thorough] [prop]           -- apply seeded/<name>/patch.diff to /repo (or $VERIF_REPO), run the check, undo
  seeded.py tryall [quick|thorough]                      -- the same for every seeded change, with a tally
"""
import json, os, re, subprocess, sys, shutil, time
HERE = os.path.dirname(os.path.dirname(os.path.abspath(__file__)))
SEEDED = os.path.join(HERE, "seeded")
TARGET = os.environ.get("SEEDED_TARGET", "/tmp/mut/target-shared")


def sh(cmd, cwd=None, env=None, timeout=3600):
    e = dict(os.environ, CARGO_NET_OFFLINE="true", CARGO_TARGET_DIR=TARGET)
    if env:
        e.update(env)
    r = subprocess.run(cmd, shell=True, cwd=cwd, env=e, capture_output=True, text=True, timeout=timeout)
    return r.returncode, r.stdout + r.stderr


def test_counts(out):
    p = sum(int(x) for x in re.findall(r"test result: \w+\. (\d+) passed", out))
    f = sum(int(x) for x in re.findall(r"test result: \w+\. \d+ passed; (\d+) failed", out))
    return p, f


def confirm(name, prop, outdir, wt):
    meta = {"name": name, "property": prop, "source": "independent sub-agent given only the property text and a scratch worktree"}
    sh("git checkout -- . && git clean -fdq", cwd=wt)
    # (a) patch applies, builds, 81 tests pass
    c, o = sh("git apply %s/patch.diff" % outdir, cwd=wt)
    assert c == 0, "patch does not apply: " + o
    c, o = sh("cargo test --workspace --no-fail-fast --offline 2>&1", cwd=wt)
    p, f = test_counts(o)
    meta["existing_tests_with_change"] = {"passed": p, "failed": f}
    ok_a = (p == 81 and f == 0)
    # (b) demo fails with the change
    demo = os.path.join(outdir, "demo.diff")
    if os.path.exists(demo):
        c, o = sh("git apply %s" % demo, cwd=wt)
        assert c == 0, "demo does not apply: " + o
    c, o1 = sh("cargo test --workspace --no-fail-fast --offline 2>&1", cwd=wt)
    p1, f1 = test_counts(o1)
    meta["demo_with_change"] = {"passed": p1, "failed": f1}
    # (c) demo passes without the change
    c, o = sh("git apply -R %s/patch.diff" % outdir, cwd=wt)
    assert c == 0, "cannot revert patch: " + o
    c, o2 = sh("cargo test --workspace --no-fail-fast --offline 2>&1", cwd=wt)
    p2, f2 = test_counts(o2)
    meta["demo_without_change"] = {"passed": p2, "failed": f2}
    sh("git checkout -- . && git clean -fdq", cwd=wt)
    ok = ok_a and f1 >= 1 and f2 == 0 and p2 > 81
    meta["confirmed"] = ok
    meta["what_i_ran"] = ["git apply patch.diff; cargo test --workspace --no-fail-fast --offline (81 pass)",
                          "git apply demo.diff; cargo test ... (demo fails)", "git apply -R patch.diff; cargo test ... (all pass)"]
    d = os.path.join(SEEDED, name)
    os.makedirs(d, exist_ok=True)
    for f in os.listdir(outdir):
        if f.endswith(".diff") or f.endswith(".md") or f.endswith(".rs"):
            shutil.copy(os.path.join(outdir, f), os.path.join(d, f))
    readme = os.path.join(outdir, "README.md")
    if os.path.exists(readme):
        txt = open(readme).read()
        meta["needs_to_manifest"] = txt[:1500]
    json.dump(meta, open(os.path.join(d, "meta.json"), "w"), indent=1)
    print(name, "confirmed" if ok else "NOT CONFIRMED", meta["existing_tests_with_change"], meta["demo_with_change"], meta["demo_without_change"])
    return ok


def try_(name, tier="quick", prop=None):
    d = os.path.join(SEEDED, name)
    meta = json.load(open(os.path.join(d, "meta.json")))
    prop = prop or meta["property"]
    repo = os.environ.get("VERIF_REPO", "/repo")
    c, o = sh("git -C %s status --porcelain" % repo)
    assert o.strip() == "", "%s is not clean" % repo
    c, o = sh("git -C %s apply %s/patch.diff" % (repo, d))
    assert c == 0, o
    try:
        t0 = time.time()
        r = subprocess.run(["./check", prop, tier], cwd=HERE, capture_output=True, text=True, timeout=7200)
        viol = [l for l in r.stdout.splitlines() if l.startswith("VIOLATION")]
        if r.returncode == 2:
            print("HARNESS:", r.stderr[-1500:])
        res = {"check": "./check %s %s" % (prop, tier), "exit": r.returncode, "violations": [v[:400] for v in viol[:4]], "n_violation_lines": len(viol), "wall_s": round(time.time() - t0, 1)}
    finally:
        sh("git -C %s checkout -- . && git -C %s clean -fdq" % (repo, repo))
    meta.setdefault("checks", {})["%s %s" % (prop, tier)] = res
    meta["caught"] = any(v["exit"] == 1 for v in meta["checks"].values())
    json.dump(meta, open(os.path.join(d, "meta.json"), "w"), indent=1)
    print(name, prop, tier, "exit", res["exit"], "violations", res["n_violation_lines"], (viol[0][:300] if viol else ""))
    return res["exit"]


if __name__ == "__main__":
    a = sys.argv[1:]
    if a[0] == "confirm":
        sys.exit(0 if confirm(a[1], a[2], a[3], a[4]) else 1)
    if a[0] == "tryall":
        # every seeded change against the quick check of its property, final machinery; table at the end
        names = sorted(n for n in os.listdir(SEEDED) if os.path.exists(os.path.join(SEEDED, n, "patch.diff")))
        out = {}
        for n in names:
            try:
                out[n] = try_(n, a[1] if len(a) > 1 else "quick")
            except Exception as e:
                out[n] = "error: %s" % e
                sh("git -C %s checkout -- ." % os.environ.get("VERIF_REPO", "/repo"))
        caught = sum(1 for v in out.values() if v == 1)
        print("tryall: %d of %d seeded changes caught (exit 1 with a VIOLATION line); others: %s" % (caught, len(out), {k: v for k, v in out.items() if v != 1}))
        sys.exit(0)
    if a[0] == "try":
        sys.exit(0 if try_(a[1], a[2] if len(a) > 2 else "quick", a[3] if len(a) > 3 else None) in (0, 1) else 2)
