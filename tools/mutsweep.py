#!/usr/bin/env python3
"""Sensitivity sweep: small hand-written changes to breard-r/acmed, each breaking one listed property,
applied one at a time to a scratch copy of the repository (never /repo), and the property's quick check
run against it.  Complements the sub-agent changes under seeded/ (DESIGN.md section 16).

usage: VERIF_REPO=<scratch copy of /repo> python3 tools/mutsweep.py [name-prefix ...]
The scratch copy must be a git checkout (changes are undone with `git checkout -- .`).
Writes seeded/sweep_results.json.  Exit status is informational only."""
import json, os, re, subprocess, sys, time

HERE = os.path.dirname(os.path.dirname(os.path.abspath(__file__)))
REPO = os.environ.get("VERIF_REPO")
if not REPO or os.path.realpath(REPO) == "/repo":
    sys.exit("set VERIF_REPO to a scratch copy of /repo")

A = "acmed/src/"
M = []


def mut(name, props, file, old, new, why, nth=None):
    M.append(dict(name=name, props=props.split(","), file=file, old=old, new=new, why=why, nth=nth, expect_miss=EXPECT_MISS.get(name)))


# changes that break no listed property as it is stated: kept in the sweep as controls (a check that
# fired on one of them would be demanding more than its statement)
EXPECT_MISS = {
    "cert-before-key": "C03 quantifies over CA and network behaviour only; both writes happen after the last exchange, so their order is invisible to it",
    "key-always-new": "harmless: the pair stays consistent",
    "contacts-hash-not-recorded-at-registration": "harmless: one superfluous contact update, the CA's record stays in line",
    "no-wait-between-retries": "C08 does not speak of the wait between transmissions",
    "nonce-taken-before-lock": "behaviour identical",
    "limiter-stops-admitting": "requests are delayed until the log is pruned (at most the longest period), not withheld for ever: C09 only forbids the latter",
    "url-of-other-request": "the JWS url still equals the URL the request is sent to (C04 holds); no listed property speaks of which URL the challenge response goes to; the attempt fails and is reported as failed",
}


# ---- C01: what is ordered / requested is what is configured
mut("csr-drops-ip-sans", "C01", A + "acme_proto.rs", "\t\tips.as_slice(),", "\t\t&ips[..0],",
    "CSR built without the IP identifiers")
mut("csr-digest-fixed", "C01", A + "acme_proto.rs", "\t\tcert.csr_digest,", "\t\tacme_common::crypto::HashFunction::Sha256,",
    "configured csr_digest ignored")
mut("order-skips-last-identifier", "C01", A + "acme_proto.rs", "NewOrder::new(&cert.identifiers);",
    "NewOrder::new(&cert.identifiers[..cert.identifiers.len().max(2) - 1]);", "order lacks the last identifier when there are several")
mut("keytype-from-file", "C01", A + "acme_proto/certificate.rs", "\tOk((gen_keypair(cert.key_type)?, true))",
    "\tOk((gen_keypair(acme_common::crypto::KeyType::EcdsaP256)?, true))", "configured key type ignored for a new key")
# ---- C02 / C03: storage
mut("no-truncate", "C02", A + "storage.rs", "\t\t\t.truncate(true)\n", "", "files opened without truncation")
mut("cert-before-key", "C03", A + "acme_proto.rs",
    "\tif is_new_key_pair {\n\t\tstorage::set_keypair(&cert.file_manager, &key_pair).await?;\n\t}\n\tstorage::write_certificate(&cert.file_manager, crt.as_bytes()).await?;",
    "\tstorage::write_certificate(&cert.file_manager, crt.as_bytes()).await?;\n\tif is_new_key_pair {\n\t\tstorage::set_keypair(&cert.file_manager, &key_pair).await?;\n\t}",
    "certificate written before its key: a failure/crash between leaves the new certificate beside the old key")
mut("no-cert-key-check", "C03", A + "acme_proto.rs", "\tif !new_crt\n\t\t.inner_cert", "\tif false && !new_crt\n\t\t.inner_cert",
    "downloaded certificate no longer compared with the key")
mut("no-cert-parse", "C03", A + "acme_proto.rs", "\t\t.map_err(|e| e.prefix(\"invalid certificate received\"))?;\n\tif !new_crt",
    "\t\t.map_err(|e| e.prefix(\"invalid certificate received\"));\n\tlet new_crt = match new_crt { Ok(c) => c, Err(_) => { storage::write_certificate(&cert.file_manager, crt.as_bytes()).await?; return Ok(()); } };\n\tif !new_crt",
    "unparseable download stored anyway")
mut("key-always-new", "C03", A + "acme_proto/certificate.rs", "\t\t\treturn Ok((key_pair, false));", "\t\t\treturn Ok((key_pair, true));",
    "a re-used key is rewritten at every renewal (harmless for the pair, extra write + hooks)")
# ---- C04: JWS
mut("kid-for-newaccount", "C04", A + "jws.rs", "\t\tjwk: Some(key_pair.jwk_public_key()?),\n\t\tkid: None,\n\t\tnonce,",
    "\t\tjwk: Some(key_pair.jwk_public_key()?),\n\t\tkid: Some(String::new()),\n\t\tnonce,", "jwk and kid both present")
mut("url-of-other-request", "C04", A + "acme_proto.rs",
    "\t\t\t\thttp::post_jose_no_response(\n\t\t\t\t\t&mut *(endpoint_s.write().await),\n\t\t\t\t\t&data_builder,\n\t\t\t\t\t&chall_url,",
    "\t\t\t\thttp::post_jose_no_response(\n\t\t\t\t\t&mut *(endpoint_s.write().await),\n\t\t\t\t\t&data_builder,\n\t\t\t\t\tauth_url,",
    "challenge response posted to the authorization URL")
mut("nonce-not-updated-on-error", "C04,C08", A + "http.rs",
    "\t\tupdate_nonce(endpoint, &response)?;\n\t\tmatch check_status(&response) {",
    "\t\tif response.status().is_success() {\n\t\t\tupdate_nonce(endpoint, &response)?;\n\t\t}\n\t\tmatch check_status(&response) {",
    "Replay-Nonce of error replies ignored")
mut("inner-jws-has-nonce", "C04", A + "acme_proto/account.rs", "\t\t&url,\n\t\tNone,\n\t)?;", "\t\t&url,\n\t\tSome(String::from(\"x\")),\n\t)?;",
    "inner key-change JWS carries a nonce (RFC 8555 7.3.5 forbids)")
# ---- C05: challenges
mut("clean-before-validation", "C05,C10", A + "acme_proto.rs",
    "\t\t// Pool the authorization in order to see whether or not it is valid\n",
    "\t\tfor (data, hook_type) in hook_datas.iter() {\n\t\t\tcert.call_challenge_hooks_clean(data, (*hook_type).to_owned())\n\t\t\t\t.await?;\n\t\t}\n\t\thook_datas.clear();\n",
    "clean hooks run before the CA has validated")
mut("http-hooks-skipped", "C05", A + "certificate.rs", "\t\thooks::call(self, &self.hooks, &hook_data, hook_type.0).await?;",
    "\t\tif !matches!(identifier.challenge, Challenge::Http01) {\n\t\t\thooks::call(self, &self.hooks, &hook_data, hook_type.0).await?;\n\t\t}",
    "http-01 challenge hooks not run, the CA is told the challenge is ready all the same")
mut("proof-with-past-key", "C05", A + "acme_proto.rs", "challenge.get_proof(&account_s.read().await.current_key.key)?;",
    "{ let a = account_s.read().await; let k = a.past_keys.first().map(|k| k.key.clone()).unwrap_or_else(|| a.current_key.key.clone()); challenge.get_proof(&k)? };",
    "proof computed with the first past key when there is one")
mut("valid-authz-solved-again", "C05", A + "acme_proto.rs", "\t\tif auth.status == AuthorizationStatus::Valid {\n\t\t\tcontinue;\n\t\t}\n\t\tif auth.status != AuthorizationStatus::Pending {",
    "\t\tif auth.status != AuthorizationStatus::Pending && auth.status != AuthorizationStatus::Valid {",
    "an already valid authorization is solved again")
# ---- C06: renewal time
mut("renew-delay-ignored", "C06", A + "certificate.rs", "let expires_in = expires_in.saturating_sub(self.renew_delay);",
    "let expires_in = expires_in.saturating_sub(self.renew_delay / 2);", "renews later than renew_delay before expiry")
mut("early-renew-doubled", "C06", A + "certificate.rs", "gen_range(Duration::ZERO..self.random_early_renew))",
    "gen_range(Duration::ZERO..self.random_early_renew * 2))", "random early renewal up to twice the configured bound")
mut("missing-identifier-reversed", "C06", A + "certificate.rs", "let has_miss = req_names.difference(&cert_names).count() != 0;",
    "let has_miss = cert_names.difference(&req_names).count() != 0;", "a certificate lacking a configured name is not renewed at once")
mut("one-file-enough", "C06", A + "storage.rs", "\tlet file_types = vec![FileType::PrivateKey, FileType::Certificate];",
    "\tlet file_types = vec![FileType::Certificate];", "a missing key file no longer triggers issuance")
# ---- C07: keeps going
mut("backoff-index-unclamped", "C07", A + "main_event_loop.rs", "backoff[scheduling_retries.min(backoff.len() - 1)],",
    "backoff[scheduling_retries],", "panic at the fifth consecutive scheduling error")
mut("guard-across-register", "C07,C12", A + "acme_proto.rs",
    "\t\tlet res = http::new_order(&mut *(endpoint_s.write().await), &data_builder).await;\n\t\tmatch res {",
    "\t\tmatch http::new_order(&mut *(endpoint_s.write().await), &data_builder).await {",
    "endpoint write guard alive across re-registration (self-deadlock on accountDoesNotExist)")
mut("pool-forever", "C07", A + "acme_proto/http.rs", "\t\tfor _ in 0..crate::DEFAULT_POOL_NB_TRIES {", "\t\tloop {",
    "polling never gives up", )
# ---- C08: retry policy
mut("badnonce-not-recoverable", "C08", A + "acme_proto/structs/error.rs", "\t\t*self == AcmeError::BadNonce\n\t\t\t|| ", "\t\t", "badNonce no longer retried")
mut("unauthorized-recoverable", "C08", A + "acme_proto/structs/error.rs", "\t\t\t|| *self == AcmeError::Tls\n", "\t\t\t|| *self == AcmeError::Tls\n\t\t\t|| *self == AcmeError::Unauthorized\n",
    "unauthorized retried")
mut("retry-bound-9", "C08", A + "http.rs", "for _ in 0..crate::DEFAULT_HTTP_FAIL_NB_RETRY {", "for _ in 1..crate::DEFAULT_HTTP_FAIL_NB_RETRY {", "9 transmissions instead of 10")
mut("no-wait-between-retries", "C08", A + "http.rs", "\t\tthread::sleep(time::Duration::from_secs(crate::DEFAULT_HTTP_FAIL_WAIT_SEC));\n", "", "retries sent back to back")
# ---- C09: rate limits
mut("get-not-limited", "C09", A + "http.rs", "\tlet client = get_client(&endpoint.root_certificates)?;\n\trate_limit(endpoint).await;\n", "\tlet client = get_client(&endpoint.root_certificates)?;\n",
    "GET requests bypass the limiter")
mut("prune-by-shortest", "C09", A + "endpoint.rs", "if let Some((_, max_limit)) = self.limits.first() {", "if let Some((_, max_limit)) = self.limits.last() {",
    "log pruned by the shortest period")
mut("window-off-by-one", "C09", A + "endpoint.rs", "\t\t\t\t\tif nb_req >= *max_allowed {", "\t\t\t\t\tif nb_req > *max_allowed {", "one request too many per window")
mut("log-before-wait", "C09", A + "endpoint.rs", "\t\t\tif self.request_allowed() {\n\t\t\t\tself.query_log.push(Instant::now());\n\t\t\t\treturn;\n\t\t\t}",
    "\t\t\tif self.request_allowed() || self.query_log.len() > 64 {\n\t\t\t\tself.query_log.push(Instant::now());\n\t\t\t\treturn;\n\t\t\t}",
    "limiter gives up once its log holds more than 64 entries")
# ---- C10: hooks
mut("env-order-swapped", "C10", A + "certificate.rs", "\t\thook_data.set_env(&self.env);\n\t\thook_data.set_env(&identifier.env);",
    "\t\thook_data.set_env(&identifier.env);\n\t\thook_data.set_env(&self.env);", "certificate env overrides identifier env")
mut("post-edit-always", "C10", A + "storage.rs", "\tif is_new {\n\t\thooks::call(fm, &fm.hooks, &hook_data, HookType::FilePostCreate).await?;",
    "\tif is_new && path.is_file() == false {\n\t\thooks::call(fm, &fm.hooks, &hook_data, HookType::FilePostCreate).await?;", "post-create never runs (file exists by then)")
mut("allow-failure-stops", "C10", A + "hooks.rs", "\tif !status.success() && !hook.allow_failure {", "\tif !status.success() && (!hook.allow_failure || status.code().is_none()) {",
    "a tolerated hook killed by a signal still aborts the sequence")
mut("account-env-dropped", "C10", A + "main_event_loop.rs", "\t\t\t\tenv: acc.env.clone(),", "\t\t\t\tenv: Default::default(),", "account-level env not passed to account file hooks")
mut("stdin-not-rendered", "C10", A + "hooks.rs", "\t\t\tlet data_in = render_template(s, &data)?;", "\t\t\tlet data_in = s.to_string();", "stdin_str passed without template rendering")
mut("post-operation-only-on-success", "C10", A + "main_event_loop.rs", "\tmatch certificate\n\t\t.call_post_operation_hooks(&status, is_success)\n\t\t.await\n\t{",
    "\tmatch if is_success { certificate\n\t\t.call_post_operation_hooks(&status, is_success)\n\t\t.await } else { Ok(()) }\n\t{", "post-operation hooks skipped after a failure")
# ---- C11: account in line with configuration
mut("contacts-skipped-after-rollover", "C11", A + "account.rs", "\t\t\tif contacts_changed {", "\t\t\tif contacts_changed && !key_changed {",
    "contacts change lost when the key changes in the same start")
mut("config-contacts-ignored", "C11", A + "account.rs", "\t\t\t\ta.contacts = contacts;\n", "", "stored contacts win over configured ones")
mut("contacts-hash-not-recorded-at-registration", "C11", A + "acme_proto/account.rs", "\taccount.update_contacts_hash(&endpoint.name)?;\n\taccount.update_external_account_hash", "\taccount.update_external_account_hash",
    "harmless: one superfluous contact update after registration (expected NOT caught: the CA record stays in line)")
mut("rollover-signed-by-new-key-only", "C11,C04", A + "acme_proto/account.rs", "\t\t\told_key,\n\t\t\t&old_account_key.signature_algorithm,", "\t\t\t&account.current_key.key,\n\t\t\t&account.current_key.signature_algorithm,",
    "outer key-change JWS signed with the new key")
mut("keyhash-saved-before-reply", "C11", A + "acme_proto/account.rs",
    "\tcreate_account_if_does_not_exist!(\n\t\thttp::post_jose_no_response(endpoint, &data_builder, &url).await,\n\t\tendpoint,\n\t\taccount\n\t)?;\n\taccount.update_key_hash(&endpoint_name)?;\n\taccount.save().await?;",
    "\tlet r = http::post_jose_no_response(endpoint, &data_builder, &url).await;\n\tlet mut a2 = account.clone();\n\ta2.update_key_hash(&endpoint_name)?;\n\ta2.save().await?;\n\tcreate_account_if_does_not_exist!(\n\t\tr,\n\t\tendpoint,\n\t\taccount\n\t)?;\n\taccount.update_key_hash(&endpoint_name)?;\n\taccount.save().await?;",
    "key hash persisted even when the roll-over failed")
# ---- C12: concurrency
mut("nonce-taken-before-lock", "C12", A + "http.rs", "\t\tlet nonce = &endpoint.nonce.clone().unwrap_or_default();", "\t\tlet nonce = &endpoint.nonce.take().unwrap_or_default();\n\t\tendpoint.nonce = Some(nonce.clone());",
    "no-op rewrite (expected NOT caught: behaviour identical)")
# ---- C13: modes and owners
mut("modes-swapped", "C13", A + "storage.rs", "\t\t\tFileType::Certificate => fm.cert_file_mode,\n\t\t\tFileType::PrivateKey => fm.pk_file_mode,",
    "\t\t\tFileType::Certificate => fm.pk_file_mode,\n\t\t\tFileType::PrivateKey => fm.cert_file_mode,", "cert and key modes swapped")
mut("chown-on-create-only", "C13", A + "storage.rs", "\tif cfg!(unix) {\n\t\tset_owner(fm, &path, file_type)", "\tif cfg!(unix) && is_new {\n\t\tset_owner(fm, &path, file_type)",
    "owner applied only when the file is created")
mut("pk-group-from-cert", "C13", A + "storage.rs", "FileType::PrivateKey => (fm.pk_file_owner.to_owned(), fm.pk_file_group.to_owned()),",
    "FileType::PrivateKey => (fm.pk_file_owner.to_owned(), fm.cert_file_group.to_owned()),", "key file gets the certificate's group")
mut("account-file-mode-cert", "C13", A + "storage.rs", "\t\t\tFileType::Account => crate::DEFAULT_ACCOUNT_FILE_MODE,", "\t\t\tFileType::Account => fm.cert_file_mode,", "account file created with the certificate mode")
# ---- C16 / C17: tacd
mut("tacd-noack", "C16", "tacd/src/openssl_server.rs", "AlpnError::ALERT_FATAL;", "AlpnError::NOACK;", "foreign ALPN tolerated")
mut("tacd-san-raw", "C16", "tacd/src/main.rs", None, None, "placeholder", )
mut("tacd-validity", "C16", "acme_common/src/crypto/openssl_certificate.rs", "Asn1Time::days_from_now(0)?;\n\tbuilder.set_not_before", "Asn1Time::days_from_now(1)?;\n\tbuilder.set_not_before",
    "certificate not yet valid")
mut("tacd-extra-san", "C16", "acme_common/src/crypto/openssl_certificate.rs", "SubjectAlternativeName::new().dns(domain).build(&ctx)?;",
    "SubjectAlternativeName::new().dns(domain).dns(\"localhost\").build(&ctx)?;", "second SAN")
mut("tacd-unwrap-accept", "C17", "tacd/src/openssl_server.rs", "\t\t\t\t\tif let Err(e) = acceptor.accept(stream) {\n\t\t\t\t\t\tdebug!(\"handshake error: {e}\");\n\t\t\t\t\t}",
    "\t\t\t\t\tacceptor.accept(stream).unwrap();", "failed handshake aborts the process (shipped panic=abort)")
mut("tacd-serial-accept", "C17", "tacd/src/openssl_server.rs", "\t\t\t\tthread::spawn(move || {", "\t\t\t\tlet _ = (move || {",
    "placeholder", )

# ---- part 2: one change per oracle clause that no earlier change had been seen to fire
S = "acmed/src/account/storage.rs"
mut("always-newaccount", "C11", A + "account.rs", "\t\tif !acc_ep.account_url.is_empty() {\n\t\t\tif let Some(ec)", "\t\tif !acc_ep.account_url.is_empty() && self.contacts.len() > 99 {\n\t\t\tif let Some(ec)",
    "newAccount sent at every renewal although a URL is stored")
mut("contacts-updated-twice", "C11", A + "account.rs", "\t\t\tif contacts_changed {\n\t\t\t\tupdate_account_contacts(endpoint, self).await?;\n\t\t\t}",
    "\t\t\tif contacts_changed {\n\t\t\t\tupdate_account_contacts(endpoint, self).await?;\n\t\t\t\tupdate_account_contacts(endpoint, self).await?;\n\t\t\t}", "two updates for one changed item")
mut("past-keys-not-saved", "C11", S, "\t\tpast_keys,\n\t\texternal_account,\n\t};\n\tlet encoded", "\t\tpast_keys: if past_keys.len() > 1 { past_keys[1..].to_vec_lossy() } else { past_keys },\n\t\texternal_account,\n\t};\n\tlet encoded",
    "placeholder")
mut("oldest-past-key-dropped", "C11", A + "account.rs", "\t\t\tself.past_keys.push(self.current_key.to_owned());", "\t\t\tself.past_keys = vec![self.current_key.to_owned()];",
    "only the latest superseded key is kept: an endpoint two roll-overs behind can no longer be rolled over")
mut("orders-url-not-loaded", "C11", S, "\t\t\torders_url: self.orders_url.clone(),\n\t\t\tkey_hash: self.key_hash.clone(),\n\t\t\tcontacts_hash: self.contacts_hash.clone(),\n\t\t\texternal_account_hash: self.external_account_hash.clone(),\n\t\t}\n\t}\n}\n\n#[derive(Serialize, Deserialize, PartialEq, Debug)]\nstruct AccountStorage",
    "\t\t\torders_url: String::new(),\n\t\t\tkey_hash: self.key_hash.clone(),\n\t\t\tcontacts_hash: self.contacts_hash.clone(),\n\t\t\texternal_account_hash: self.external_account_hash.clone(),\n\t\t}\n\t}\n}\n\n#[derive(Serialize, Deserialize, PartialEq, Debug)]\nstruct AccountStorage",
    "orders URL lost at every load")
mut("corrupt-account-file-ignored", "C11", S, "\tdo_fetch(file_manager, name).await.map_err(|_| {\n\t\tformat!(\"account \\\"{name}\\\": unable to load account file: file may be corrupted\").into()\n\t})",
    "\tmatch do_fetch(file_manager, name).await {\n\t\tOk(a) => Ok(a),\n\t\tErr(_) => Ok(None),\n\t}", "an unreadable account file is treated as no account: a new identity replaces it")
mut("account-url-mangled", "C11", A + "acme_proto/account.rs", "\taccount.set_account_url(&endpoint.name, &account_url)?;", "\taccount.set_account_url(&endpoint.name, account_url.trim_end_matches(char::is_numeric))?;",
    "stored account URL is not the one the CA gave")
mut("sync-on-a-copy", "C12", A + "acme_proto.rs", "\taccount_s\n\t\t.write()\n\t\t.await\n\t\t.synchronize(&mut *(endpoint_s.write().await))\n\t\t.await?;",
    "\tlet mut acc_copy = account_s.read().await.clone();\n\tacc_copy\n\t\t.synchronize(&mut *(endpoint_s.write().await))\n\t\t.await?;\n\t*account_s.write().await = acc_copy;",
    "account synchronised on a copy taken under the read lock: two certificates of a new account both register")
mut("always-success", "C07", A + "main_event_loop.rs", "\t\t\t\t(e.message, false)", "\t\t\t\t(e.message, true)", "failed attempt reported to the post-operation hooks as success")
mut("error-text-dropped", "C07", A + "main_event_loop.rs", "\t\t\t\t(e.message, false)", "\t\t\t\t(String::new(), false)", "failure reported without its error text")
mut("error-text-generic", "C07", A + "main_event_loop.rs", "\t\t\t\t(e.message, false)", "\t\t\t\t(\"unable to renew the certificate\".to_string(), false)", "failure reported with a generic text")
mut("4xx-taken-for-success", "C08", A + "http.rs", "\tif !response.status().is_success() {\n\t\tlet status = response.status();", "\tif response.status().is_server_error() {\n\t\tlet status = response.status();",
    "a 4xx answer is taken for success")
mut("retry-bound-11", "C08", A + "http.rs", "for _ in 0..crate::DEFAULT_HTTP_FAIL_NB_RETRY {", "for _ in 0..=crate::DEFAULT_HTTP_FAIL_NB_RETRY {", "11 transmissions")
mut("poll-bound-25", "C08", A + "acme_proto/http.rs", "\t\tfor _ in 0..crate::DEFAULT_POOL_NB_TRIES {", "\t\tfor _ in 0..crate::DEFAULT_POOL_NB_TRIES + 5 {", "25 polls")
mut("retry-body-changes", "C08", A + "http.rs", ["for _ in 0..crate::DEFAULT_HTTP_FAIL_NB_RETRY {", "\t\tlet body = data_builder(nonce, url)?;"],
    ["for attempt_nb in 0..crate::DEFAULT_HTTP_FAIL_NB_RETRY {", "\t\tlet url_sent = if attempt_nb > 0 { format!(\"{url}?retry={attempt_nb}\") } else { url.to_string() };\n\t\tlet body = data_builder(nonce, &url_sent)?;"],
    "the protected header of a retransmission names another URL than the first transmission")
mut("limiter-stops-admitting", "C09", A + "endpoint.rs", "\t\t\tif self.request_allowed() {", "\t\t\tif self.request_allowed() && self.query_log.len() < 12 {",
    "once 12 requests sit in the log nothing is admitted until they are pruned, whatever the limits allow")
mut("limiter-never-admits-again", "C09", A + "endpoint.rs", ["\t\t\tself.prune_log();\n\t\t\tif self.request_allowed() {", ],
    ["\t\t\tif self.request_allowed() && self.query_log.len() < 12 {", ],
    "the log is no longer pruned and nothing is admitted once it holds 12 entries: requests withheld for ever although the limits permit them")
mut("hard-failure-ignored", "C10", A + "hooks.rs", "\t\tcall_single(logger, data, hook)\n\t\t\t.await\n\t\t\t.map_err(|e| e.prefix(&hook.name))?;", "\t\tlet _ = call_single(logger, data, hook).await;",
    "a failing hook without allow_failure does not stop the sequence")
mut("clean-hook-other-proof", "C10", A + "acme_proto.rs", "\t\t\t\tdata.0.is_clean_hook = true;", "\t\t\t\tdata.0.is_clean_hook = true;\n\t\t\t\tdata.0.proof = String::new();",
    "clean hooks get an empty proof")
mut("file-hook-name-is-path", "C10", A + "storage.rs", "\t\tfile_name,\n\t\tfile_directory,", "\t\tfile_name: file_directory.clone(),\n\t\tfile_directory,", "file hooks get the directory as file_name")
mut("stdout-path-not-rendered", "C10", A + "hooks.rs", "\t\t\t\tlet path = render_template(path, $data)?;", "\t\t\t\tlet path = path.to_string();", "stdout/stderr path used without template rendering")
mut("post-operation-status-empty", "C10", A + "certificate.rs", "\t\t\tstatus: status.to_string(),", "\t\t\tstatus: String::new(),", "post-operation hooks get an empty status")
mut("multi-typed-hooks-always-run", "C10", A + "hooks.rs", ".filter(|h| h.hook_type.contains(&hook_type))", ".filter(|h| h.hook_type.contains(&hook_type) || h.hook_type.len() > 1)",
    "a hook with several types runs at every event")
mut("failed-challenge-hook-ignored", "C05", A + "certificate.rs", "\t\thooks::call(self, &self.hooks, &hook_data, hook_type.0).await?;", "\t\tlet _ = hooks::call(self, &self.hooks, &hook_data, hook_type.0).await;",
    "the CA is told the challenge is ready although its hook failed")
mut("http-file-name-suffixed", "C05", A + "acme_proto/structs/authorization.rs", "\t\t\tChallenge::Http01(tc) => tc.token.to_owned(),", "\t\t\tChallenge::Http01(tc) => format!(\"{}.txt\", tc.token),", "http-01 file name is not the token")
mut("tls-raw-proof-hex", "C05", A + "acme_proto/structs/authorization.rs", "\t\t\t\tlet b64_hash = b64_encode(&proof);", "\t\t\t\tlet b64_hash = b64_encode(&ka);", "raw_proof is not the digest")
mut("reverse-dns-not-reversed", "C05", A + "identifier.rs", "\t\t\t\t\t\t.octets()\n\t\t\t\t\t\t.iter()\n\t\t\t\t\t\t.rev()\n\t\t\t\t\t\t.map(|v| v.to_string())", "\t\t\t\t\t\t.octets()\n\t\t\t\t\t\t.iter()\n\t\t\t\t\t\t.map(|v| v.to_string())",
    "IPv4 reverse-DNS name not reversed")
mut("subject-attributes-dropped", "C01", A + "acme_proto.rs", "\t\t&cert.subject_attributes,\n\t)?;", "\t\t&Default::default(),\n\t)?;", "CSR without the configured subject attributes")
mut("kp-reuse-ignored", "C01", A + "acme_proto/certificate.rs", "\tif cert.kp_reuse {", "\tif cert.kp_reuse && cert.identifiers.len() > 99 {", "a usable key is regenerated although kp_reuse is set")

# ---- part 3: tacd
T = "tacd/src/"
mut("tacd-no-trim", "C16", T + "main.rs", "\tlet line = input.trim().to_string();", "\tlet line = input.to_string();", "domain / extension read from a file or stdin keep their line terminator")
mut("tacd-key-type-ignored", "C16", T + "main.rs", "X509Certificate::from_acme_ext(&domain, &ext, crt_signature_alg, crt_digest)", "X509Certificate::from_acme_ext(&domain, &ext, DEFAULT_CRT_KEY_TYPE, crt_digest)",
    "--crt-signature-alg ignored")
mut("tacd-digest-ignored", "C16", T + "main.rs", "X509Certificate::from_acme_ext(&domain, &ext, crt_signature_alg, crt_digest)", "X509Certificate::from_acme_ext(&domain, &ext, crt_signature_alg, DEFAULT_CRT_DIGEST)",
    "--crt-digest ignored")
mut("tacd-expired-at-once", "C16", "acme_common/src/crypto/openssl_certificate.rs", "Asn1Time::days_from_now(super::CRT_NB_DAYS_VALIDITY)?;", "Asn1Time::days_from_now(0)?;", "notAfter == notBefore == now")
mut("tacd-serial-accept", "C17", T + "openssl_server.rs", ["\t\t\t\tthread::spawn(move || {", "\t\t\t\t});\n\t\t\t};"], ["\t\t\t\tlet handle = move || {", "\t\t\t\t};\n\t\t\t\thandle();\n\t\t\t};"],
    "connections handled one after the other in the accept loop: a stalled client blocks every later one")

M[:] = [m for m in M if m["old"] is not None and m["why"] != "placeholder"]
if os.environ.get("SWEEP_PART") == "2":
    M[:] = M[[m["name"] for m in M].index("always-newaccount"):[m["name"] for m in M].index("tacd-no-trim")]
if os.environ.get("SWEEP_PART") == "3":
    M[:] = M[[m["name"] for m in M].index("tacd-no-trim"):]


def sh(cmd, **kw):
    return subprocess.run(cmd, shell=True, capture_output=True, text=True, **kw)


def main():
    want = sys.argv[1:]
    out_path = os.path.join(HERE, "seeded", "sweep_results.json")
    results = json.load(open(out_path)) if os.path.exists(out_path) else {}
    assert sh("git status --porcelain", cwd=REPO).stdout.strip() == "", "scratch repo not clean"
    for m in M:
        if want and not any(m["name"].startswith(w) for w in want):
            continue
        path = os.path.join(REPO, m["file"])
        src = open(path).read()
        olds = m["old"] if isinstance(m["old"], list) else [m["old"]]
        news = m["new"] if isinstance(m["new"], list) else [m["new"]]
        bad = [o for o in olds if src.count(o) != 1]
        if bad:
            print("%-40s SKIP: pattern occurs %d times: %r" % (m["name"], src.count(bad[0]), bad[0][:60]), flush=True)
            results[m["name"]] = {"status": "pattern_not_unique", "n": src.count(bad[0])}
            continue
        for o, n_ in zip(olds, news):
            src = src.replace(o, n_)
        open(path, "w").write(src)
        rec = {"props": m["props"], "file": m["file"], "why": m["why"], "expect_miss": m["expect_miss"], "checks": {}}
        try:
            for prop in m["props"]:
                t0 = time.time()
                r = sh("./check %s quick" % prop, cwd=HERE, env=dict(os.environ, VERIF_REPO=REPO, VERIF_SEED=os.environ.get("VERIF_SEED", "20260927")))
                viol = [l for l in r.stdout.splitlines() if l.startswith("VIOLATION")]
                kinds = sorted(set(re.findall(r'"kind": "([^"]+)"', " ".join(viol))))
                rec["checks"][prop] = {"exit": r.returncode, "violation_lines": len(viol), "kinds": kinds, "wall_s": round(time.time() - t0, 1),
                                       "stderr_tail": r.stderr.strip().splitlines()[-3:] if r.returncode not in (0, 1) else []}
            rec["caught"] = any(c["exit"] == 1 for c in rec["checks"].values())
            if not rec["caught"] and all(c["exit"] == 0 for c in rec["checks"].values()):
                t = sh("cargo test --workspace --no-fail-fast --offline 2>&1 | grep 'test result'", cwd=REPO,
                       env=dict(os.environ, CARGO_TARGET_DIR=os.path.join(REPO, "target"), CARGO_NET_OFFLINE="true"))
                rec["existing_tests"] = t.stdout.strip().splitlines()
        finally:
            sh("git checkout -- .", cwd=REPO)
        results[m["name"]] = rec
        print("%-40s %s %s" % (m["name"], "CAUGHT" if rec["caught"] else ("missed (control: expected)" if m["expect_miss"] else "MISSED"), {p: (c["exit"], c["kinds"][:3]) for p, c in rec["checks"].items()}), flush=True)
        json.dump(results, open(out_path, "w"), indent=1, sort_keys=True)
    real = [r for r in results.values() if "caught" in r and not r.get("expect_miss")]
    ctl = [r for r in results.values() if "caught" in r and r.get("expect_miss")]
    print("sweep: %d of %d property-breaking changes caught; %d of %d controls (no listed property broken) left alone" % (
        sum(1 for r in real if r["caught"]), len(real), sum(1 for r in ctl if not r["caught"]), len(ctl)))


if __name__ == "__main__":
    main()
