#!/usr/bin/env python3
"""Large determinism proof (DESIGN.md 9.1): every (family, seed, index) is run in two different
process layouts (A: ranges dealt to 16 workers; B: ranges dealt to 3 workers, reversed order of
ranges) and the normalised trace hashes, event counts, virtual times and violations must agree.
usage: determinism_big.py [plans_per_family]"""
import json, os, subprocess, sys, time
from concurrent.futures import ThreadPoolExecutor
HERE = os.path.dirname(os.path.dirname(os.path.abspath(__file__)))
sys.path.insert(0, os.path.join(HERE, "tools"))
import driver

FAMILIES = ["F1", "F1h", "F1w", "F1o", "F1s", "F2", "F2f", "F2h", "F2s", "F2p", "F2q", "F3", "F3m", "F4", "F4g", "F4t", "F4u", "F5", "F6", "F6c", "F6f", "F6k", "F7"]


def run_range(fam, seed, lo, hi):
    cmd = [driver.ACMED, "--family", fam, "--seed", str(seed), "--from", str(lo), "--to", str(hi), "--props",
           "C01,C02,C03,C04,C05,C06,C07,C08,C09,C10,C11,C12,C13"]
    r = subprocess.run(cmd, env=driver.worker_env({"ACMED_VERIF_RUN": "batch"}), capture_output=True, text=True)
    out = {}
    for line in r.stdout.splitlines():
        try:
            j = json.loads(line)
        except Exception:
            continue
        if "index" in j:
            out[j["index"]] = (j["trace_hash"], j["events"], j["virtual_s"], json.dumps(sorted(set("|".join([v["property"], v["kind"], v.get("cause", ""), v.get("phase", "")]) for v in j["violations"]))))
    return out


def layout(fam, seed, n, workers, reverse):
    per = max(1, n // (workers * 2))
    ranges = [(lo, min(n, lo + per)) for lo in range(0, n, per)]
    if reverse:
        ranges.reverse()
    res = {}
    with ThreadPoolExecutor(workers) as ex:
        for d in ex.map(lambda r: run_range(fam, seed, r[0], r[1]), ranges):
            res.update(d)
    return res


def main():
    n = int(sys.argv[1]) if len(sys.argv) > 1 else 170
    if not driver.build(("acmed",)):
        return 2
    t0 = time.time()
    total = bad = 0
    for fam in FAMILIES:
        for seed in (7, 20260927):
            a = layout(fam, seed, n, 16, False)
            b = layout(fam, seed, n, 3, True)
            for i in sorted(a):
                total += 1
                if a[i] != b.get(i):
                    bad += 1
                    print("NONDETERMINISM", fam, seed, i, a[i][:3], (b.get(i) or ())[:3], flush=True)
            print("%s seed %d: %d plans compared, %d mismatches so far" % (fam, seed, len(a), bad), flush=True)
    print("determinism_big: %d plans run twice under two process layouts (16 and 3 workers), %d mismatches, %.0fs" % (total, bad, time.time() - t0))
    return 0 if bad == 0 else 1


if __name__ == "__main__":
    sys.exit(main())
