#!/usr/bin/env python3
"""tacd-sim driver (C16, C17): one tacd process per run (shipped panic profile), plan file =
replay file.  Plans are generated here from VERIF_SEED; the in-process simulator (sim/tacd/mod.rs)
drives the history and judges the final handshake; process death by signal is judged here."""
import json, os, random, subprocess, sys, time, hashlib, resource, signal, shutil, tempfile, itertools
from concurrent.futures import ThreadPoolExecutor

HERE = os.path.dirname(os.path.dirname(os.path.abspath(__file__)))
SHADOW = os.path.join(HERE, "shadow")
TACD = os.path.join(SHADOW, "target", "ship", "tacd")
EVID = os.path.join(HERE, "evidence")
REPLAYS = os.path.join(HERE, "replays")
KNOWN = os.path.join(HERE, "known_findings.txt")
NPROC = int(os.environ.get("VERIF_JOBS", "16"))
SCRATCH = os.environ.get("VERIF_SCRATCH", "/dev/shm")

KEY_TYPES = ["rsa2048", "rsa4096", "ecdsa-p256", "ecdsa-p384", "ecdsa-p521", "ed25519", "ed448"]
DIGESTS = ["sha256", "sha384", "sha512"]
ASCII = "abcdefghijklmnopqrstuvwxyz0123456789"
ALPHA = ["éèêàâüöäñåøçíóú", "ÉÈÊÀÂÜÖÄÑÅØÇÍÓÚ", "αβγδεζηθικλμνξοπρτυφχψω", "ΑΒΓΔΕΖΗΘΙΚΛΜΝΞΟΠΡΤΥΦΧΨΩ",
         "абвгдежзиклмнопрстуфхцчшщыэюя", "АБВГДЕЖЗИКЛМНОПРСТУФХЦЧШЩЫЭЮЯ", "中文日本語漢字東京大阪名前"]

# the catalogue of hostile / failed / non-ACME connection behaviours
CATALOGUE = [
    {"k": "close"},
    {"k": "garbage", "n": 200},
    {"k": "http"},
    {"k": "tls", "alpn": None},                       # TLS without ALPN
    {"k": "tls", "alpn": ["h2", "http/1.1"]},         # TLS with foreign ALPN
    {"k": "abandon", "alpn": ["acme-tls/1"]},         # handshake abandoned after ClientHello
    {"k": "stall", "n": 50},                          # 50 concurrent stalled connections
    {"k": "tls", "alpn": ["acme-tls/1"], "trickle": True},   # byte-at-a-time delivery
    {"k": "reset_mid_record", "alpn": ["acme-tls/1"]},       # reset in the middle of a record
    # unusual server names (with an ALPN offer, so that the selection callback runs)
    {"k": "tls", "alpn": ["acme-tls/1"], "sni": ""},                                   # no SNI extension at all
    {"k": "tls", "alpn": ["h2"], "sni": "a" * 60 + "." + "b" * 60 + "." + "c" * 60 + ".example"},   # 190 octets of ASCII
    {"k": "tls", "alpn": ["acme-tls/1"], "sni": "www." + "\u00fc" * 34 + ".example.org"},   # raw U-label (client forgot to punycode)
    {"k": "tls", "alpn": ["h2"], "sni": "www1." + "\u00fc" * 34 + ".example.org"},          # same, shifted by one octet
]


def log(*a):
    print(*a, file=sys.stderr, flush=True)


def label(rng, style):
    n = rng.randint(1, 10)
    if style == 0:
        return "".join(rng.choice(ASCII) for _ in range(n))
    if style == 1:
        return "".join(rng.choice(ASCII).upper() if rng.random() < .5 else rng.choice(ASCII) for _ in range(n))
    a = ALPHA[rng.randrange(len(ALPHA))]
    return "".join(rng.choice(a) if rng.random() < .7 else rng.choice(ASCII) for _ in range(n))


def domain(rng):
    labels = rng.randint(1, 5)
    parts = [label(rng, rng.choice([0, 0, 1, 2])) for _ in range(labels - 1)]
    parts.append(rng.choice(["org", "example", "Test", "INVALID", "sim"]))
    return ".".join(parts)


def boundary_domains():
    """names at the limits of the DNS syntax: labels of 63 octets (ASCII, and internationalised labels whose
    A-label is 62, 63 octets long), a name of 253 octets, a single label, many labels"""
    a63 = "a" * 63
    idn63 = "\u00c9" + "a" * 55          # xn-- + 55 a + -91e  = 63 octets
    idn62 = "\u00c9" + "a" * 54
    idn_many = "\u00fc" * 20 + "b" * 10   # long punycode delta sequence
    full = ".".join(["b" * 63, "c" * 63, "d" * 63, "e" * 61])     # 253 octets
    return [a63 + ".example", "A" * 63 + ".Example", idn63 + ".example", idn63.lower() + ".example", idn62 + ".example",
            idn_many + ".example", full, "localhost", ".".join("x%d" % i for i in range(40)) + ".sim",
            "Xn--Mnchen-3ya.example", "1.2.3.4.in-addr.arpa"]


def sig_digest_for(key, digest):
    return "none" if key.startswith("ed") else digest


def base_plan(rng, idx, cheap=True):
    keys = ["ecdsa-p256", "ecdsa-p384", "ecdsa-p521", "ed25519", "ed448"] if cheap else KEY_TYPES
    key = rng.choice(keys)
    if not cheap and key == "rsa4096" and rng.random() < .8:
        key = "rsa2048"
    dg = rng.choice(DIGESTS)
    digest = bytes(rng.getrandbits(8) for _ in range(32))
    dom = domain(rng)
    ext = "1.3.6.1.5.5.7.1.31=critical,DER:04:20:" + ":".join("%02x" % b for b in digest)
    return {
        "engine": "tacd-sim", "index": idx,
        "args": {"domain": dom, "ext": ext, "key": key, "digest": dg, "source": rng.choice(["flag", "file", "stdin"])},
        "expect": {"domain_raw": dom, "sni": "validation.target.example", "digest_hex": digest.hex(), "key_type": key,
                   "sig_digest": sig_digest_for(key, dg)},
        "history": [], "overlap": False, "sched_seed": rng.getrandbits(63),
        "final": {"k": "valid", "alpn": ["acme-tls/1"]},
    }


def gen_c16(seed, idx, thorough):
    rng = random.Random("%d-C16-%d" % (seed, idx))
    p = base_plan(rng, idx, cheap=not thorough or idx % 10 != 0)
    if thorough or idx < 21 * 3:
        # exhaustive part: key type x digest x source
        k = idx % (7 * 3 * 3)
        if thorough or k % 7 not in (0, 1) or idx < 7:
            pass
    # the refused-client case: offers only other protocols (placed last in its run)
    if idx % 5 == 4:
        p["final"] = {"k": "valid", "alpn": rng.choice([["h2"], ["http/1.1", "h2"], ["acme-tls/2"], ["acme-tls/1x"], ["ACME-TLS/1"]]), "expect_refusal": True}
    elif idx % 5 == 3:
        # acme-tls/1 among other offers, in any position
        others = ["h2", "http/1.1", "spdy/3"]
        rng.shuffle(others)
        lst = others[:rng.randint(1, 3)]
        lst.insert(rng.randint(0, len(lst)), "acme-tls/1")
        p["final"] = {"k": "valid", "alpn": lst}
    return p


def grid_c16(idx):
    """exhaustive grid: 7 key types x 3 digests x 3 input sources"""
    if idx >= 63:
        return None
    rng = random.Random("grid-C16-%d" % idx)
    p = base_plan(rng, idx)
    key = KEY_TYPES[idx % 7]
    dg = DIGESTS[(idx // 7) % 3]
    p["args"].update({"key": key, "digest": dg, "source": ["flag", "file", "stdin"][(idx // 21) % 3]})
    p["expect"].update({"key_type": key, "sig_digest": sig_digest_for(key, dg)})
    return p


def histories(max_len):
    for n in range(0, max_len + 1):
        for h in itertools.product(range(len(CATALOGUE)), repeat=n):
            yield list(h)


def gen_c17(seed, idx, hist):
    rng = random.Random("%d-C17-%d" % (seed, idx))
    p = base_plan(rng, idx)
    p["history"] = [json.loads(json.dumps(CATALOGUE[i])) for i in hist]
    for b in p["history"]:
        if b["k"] == "garbage":
            b["seed"] = rng.getrandbits(32)
            b["n"] = rng.choice([1, 5, 200, 3000])
    p["overlap"] = rng.random() < .5
    return p


def run_plan(plan, keep=False):
    d = tempfile.mkdtemp(prefix="tacd-verif-", dir=SCRATCH)
    try:
        pf = os.path.join(d, "plan.json")
        with open(pf, "w") as f:
            json.dump(plan, f)
        a = plan["args"]
        cmd = [TACD, "--listen", "sim:" + pf, "--foreground", "--no-pid-file", "--log-stderr", "--log-level", "error",
               "--crt-signature-alg", a["key"], "--crt-digest", a["digest"]]
        stdin = b""
        if a["source"] == "flag":
            cmd += ["--domain", a["domain"], "--acme-ext", a["ext"]]
        elif a["source"] == "file":
            with open(os.path.join(d, "domain.txt"), "w") as f:
                f.write(a["domain"] + "\n")
            with open(os.path.join(d, "ext.txt"), "w") as f:
                f.write("  " + a["ext"] + "  \n")
            cmd += ["--domain-file", os.path.join(d, "domain.txt"), "--acme-ext-file", os.path.join(d, "ext.txt")]
        else:
            stdin = (a["domain"] + "\n" + a["ext"] + "\n").encode()

        def pre():
            resource.setrlimit(resource.RLIMIT_CORE, (0, 0))
        t0 = time.time()
        try:
            r = subprocess.run(cmd, input=stdin, capture_output=True, timeout=120 + 3 * len(plan.get("history", [])), preexec_fn=pre,
                               env={"PATH": os.environ.get("PATH", "/usr/bin:/bin")})
            code, err = r.returncode, r.stderr.decode("utf-8", "replace")
        except subprocess.TimeoutExpired:
            code, err = "timeout", ""
        res = None
        rp = pf + ".result"
        if os.path.exists(rp):
            res = json.load(open(rp))
        return {"code": code, "stderr": err[-600:], "result": res, "wall": time.time() - t0}
    finally:
        shutil.rmtree(d, ignore_errors=True)


def judge(prop, plan, out):
    """-> (violations, harness_error)"""
    v = []
    code, res = out["code"], out["result"]
    hist = "+".join(b["k"] + ("" if b.get("alpn", 1) != None else "_noalpn") + ("_foreign" if b.get("alpn") and "acme-tls/1" not in b["alpn"] else "") + ("_trickle" if b.get("trickle") else "") + ("_sni" if "sni" in b else "") for b in plan["history"]) or "none"
    if code == "timeout":
        return [], "tacd run timed out"
    if isinstance(code, int) and code < 0:
        # death by signal: under the shipped panic=abort a panicking handler kills the whole server
        sig = -code
        first = plan["history"][0]["k"] if plan["history"] else ("refused_final" if plan["final"].get("expect_refusal") else "final")
        cause = "handshake_error_unwrap" if "called `Result::unwrap()` on an `Err` value" in out["stderr"] else "other"
        if prop == "C17":
            v.append({"property": "C17", "kind": "process_killed", "cause": cause, "phase": "signal%d" % sig,
                      "detail": "tacd died by signal %d during history [%s]; stderr: %s" % (sig, hist, out["stderr"][-200:].replace("\n", " "))})
        elif not plan["final"].get("expect_refusal"):
            v.append({"property": "C16", "kind": "no_answer_process_died", "cause": cause, "phase": "signal%d" % sig,
                      "detail": "tacd died by signal %d before answering; stderr: %s" % (sig, out["stderr"][-200:].replace("\n", " "))})
        # (a refused client whose refusal kills the server is still refused: C17's subject)
        return v, None
    if res is None:
        if code == 1:
            # init() failed and tacd gave up (error logged, exit status 1) although every argument of a
            # generated plan is valid: no client is ever answered
            kind = "refused_to_start_with_valid_arguments"
            detail = "tacd exited 1 at start-up: %s" % out["stderr"][-200:].replace("\n", " ")
            if prop == "C17":
                v.append({"property": "C17", "kind": "next_validation_not_answered_correctly", "cause": kind, "phase": "", "detail": detail})
            else:
                v.append({"property": "C16", "kind": kind, "cause": "", "phase": "", "detail": detail})
            return v, None
        if code == 2:
            return [], "tacd exited %s without a result: %s" % (code, out["stderr"][-300:])
        return [], "no result record (exit %s): %s" % (code, out["stderr"][-300:])
    if "harness_error" in res:
        return [], res["harness_error"]
    verdict = res["verdict"]
    if not verdict["ok"]:
        for p in verdict["problems"]:
            kind = p.split(":")[0]
            if prop == "C17":
                v.append({"property": "C17", "kind": "next_validation_not_answered_correctly", "cause": kind, "phase": "", "detail": "after history [%s]: %s" % (hist, p)})
            else:
                v.append({"property": "C16", "kind": kind, "cause": "", "phase": "refusal" if plan["final"].get("expect_refusal") else "", "detail": p})
    if prop == "C17" and verdict.get("handler_panics"):
        v.append({"property": "C17", "kind": "handler_thread_panicked", "cause": "", "phase": "", "detail": "connections %s" % verdict["handler_panics"]})
    return v, None


def parse_known():
    out = []
    if not os.path.exists(KNOWN):
        return out
    for line in open(KNOWN):
        line = line.strip()
        if not line.startswith("known:"):
            continue
        head, _, text = line[6:].strip().partition(" -- ")
        fields = dict(t.split("=", 1) for t in head.split() if "=" in t)
        plan = fields.pop("plan", None)
        out.append({"property": fields.get("property"), "fields": fields, "plan": plan, "text": text.strip()})
    return out


def matches(k, v):
    return all(str(v.get(f, "")) in val.split("|") for f, val in k["fields"].items())


def vkey(v):
    return "|".join([v["property"], v["kind"], v.get("cause", ""), v.get("phase", "")])


def minimise(prop, plan, key):
    """drop history elements / simplify while the same violation persists"""
    cur = plan
    changed = True
    steps = 0
    while changed:
        changed = False
        cands = []
        for i in range(len(cur["history"])):
            c = json.loads(json.dumps(cur))
            del c["history"][i]
            cands.append(c)
        for i, b in enumerate(cur["history"]):
            if b.get("n", 1) > 1:
                c = json.loads(json.dumps(cur))
                c["history"][i]["n"] = 1
                cands.append(c)
        if cur.get("overlap"):
            c = json.loads(json.dumps(cur))
            c["overlap"] = False
            cands.append(c)
        if cur["args"]["source"] != "flag":
            c = json.loads(json.dumps(cur))
            c["args"]["source"] = "flag"
            cands.append(c)
        for c in cands:
            viol, herr = judge(prop, c, run_plan(c))
            if herr is None and any(vkey(x) == key for x in viol):
                cur = c
                changed = True
                steps += 1
                break
    return cur, steps


def main(prop, args, build, log_):
    if not build(("tacd",)):
        return 2
    if len(args) >= 2 and args[0] == "--replay":
        d = json.load(open(args[1]))
        plan = d.get("plan", d)
        out = run_plan(plan)
        viol, herr = judge(prop, plan, out)
        print(json.dumps({"exit": out["code"], "result": out["result"], "stderr": out["stderr"][-400:]}))
        if herr:
            log("HARNESS ERROR:", herr)
            return 2
        for v in viol:
            print("VIOLATION property=%s replay=%s  # %s" % (prop, args[1], json.dumps(v)))
        return 1 if viol else 0
    tier = args[0] if args else os.environ.get("VERIF_TIER", "quick")
    seed = int(os.environ.get("VERIF_SEED", "20260927"))
    log("VERIF_SEED=%d property=%s tier=%s jobs=%d" % (seed, prop, tier, NPROC))
    t0 = time.time()
    thorough = tier == "thorough"
    plans = []
    exhaustive_note = ""
    if prop == "C16":
        for i in range(63):
            g = grid_c16(i)
            # RSA-4096 key generation is slow: quick keeps one source for it
            if not thorough and g["args"]["key"] == "rsa4096" and i >= 7:
                continue
            plans.append(g)
        n = 20000 if thorough else 400
        plans += [gen_c16(seed, i, thorough) for i in range(n)]
        # names at the limits of the syntax, each from the three input sources
        k = 100000
        for dom in boundary_domains():
            for src in ("flag", "file", "stdin"):
                b = base_plan(random.Random("boundary-%d" % k), k)
                b["args"].update({"domain": dom, "source": src})
                b["expect"]["domain_raw"] = dom
                plans.append(b)
                k += 1
        exhaustive_note = "grid key type x digest x input source (63 cells%s) + seeded domains/digests/ALPN lists + %d names at the limits of the DNS syntax x 3 input sources" % ("" if thorough else ", rsa4096 on one source only", len(boundary_domains()))
    else:
        max_len = 3 if thorough else 2
        hs = list(histories(max_len))
        idx = 0
        for h in hs:
            plans.append(gen_c17(seed, idx, h))
            idx += 1
        rng = random.Random("%d-C17-sample" % seed)
        for _ in range(20000 if thorough else 200):
            n = rng.choice([3, 4]) if not thorough else 4
            plans.append(gen_c17(seed, idx, [rng.randrange(len(CATALOGUE)) for _ in range(n)]))
            idx += 1
        # long histories: anything that accumulates per failed connection (threads, descriptors, counters)
        # needs many of them in one process life
        n_long = 0
        for _ in range(300 if thorough else 16):
            n = rng.choice([20, 40, 100, 300] + ([1000] if thorough else []))
            mix = rng.choice(["any", "any", "one_kind", "no_stall"])
            if mix == "one_kind":
                k = rng.randrange(len(CATALOGUE))
                h = [k] * (min(n, 8) if CATALOGUE[k]["k"] == "stall" else n)
            else:
                h = [rng.randrange(len(CATALOGUE)) for _ in range(n)]
                # at most 2 x 50 stalled connections stay open at once
                stalls = 0
                for j, b in enumerate(h):
                    if CATALOGUE[b]["k"] == "stall":
                        stalls += 1
                        if stalls > 2 or mix == "no_stall":
                            h[j] = (b + 1 + rng.randrange(len(CATALOGUE) - 1)) % len(CATALOGUE)
                            if CATALOGUE[h[j]]["k"] == "stall":
                                h[j] = 0
            plans.append(gen_c17(seed, idx, h))
            idx += 1
            n_long += 1
        exhaustive_note = "all ordered selections of <= %d behaviours from a catalogue of %d (%d histories) + sampled histories of length 3-4 + %d long histories of 20-%d behaviours" % (max_len, len(CATALOGUE), len(hs), n_long, 1000 if thorough else 300)
    known = [k for k in parse_known() if k["property"] == prop]
    known_hits = {}
    for i, k in enumerate(known):
        if k["plan"]:
            d = json.load(open(os.path.join(HERE, k["plan"])))
            pl = d.get("plan", d)
            viol, herr = judge(prop, pl, run_plan(pl))
            if herr:
                log("HARNESS ERROR replaying %s: %s" % (k["plan"], herr))
                return 2
            if any(matches(k, v) for v in viol):
                known_hits[i] = 1
                print("KNOWN-FINDING: property=%s %s" % (prop, k["text"]))
            else:
                log("note: listed finding no longer reproduces from %s" % k["plan"])
    with ThreadPoolExecutor(NPROC) as ex:
        outs = list(ex.map(run_plan, plans))
    new = {}
    n_nontrivial = set()
    behaviours = {}
    hashes = set()
    samples = []
    total_events = 0
    for plan, out in zip(plans, outs):
        viol, herr = judge(prop, plan, out)
        if herr:
            log("HARNESS ERROR:", herr, json.dumps(plan)[:300])
            return 2
        ev = (out["result"] or {}).get("events", [])
        total_events += len(ev)
        sig = hashlib.sha256(json.dumps([e.split(":", 1)[1] if ":" in e else e for e in ev]).encode()).hexdigest()[:16] + str(out["code"])
        hashes.add(sig)
        for b in plan["history"]:
            name = b["k"] + ("_noalpn" if b["k"] == "tls" and not b.get("alpn") else "") + ("_foreign_alpn" if b.get("alpn") and "acme-tls/1" not in b["alpn"] else "") + ("_trickle" if b.get("trickle") else "") + ("" if "sni" not in b else ("_no_sni" if b["sni"] == "" else ("_utf8_sni" if any(ord(c) > 127 for c in b["sni"]) else "_long_sni")))
            behaviours[name] = behaviours.get(name, 0) + 1
        if prop == "C17" and plan["history"] or prop == "C16":
            n_nontrivial.add(sig + json.dumps(plan["args"], sort_keys=True)[:80] if prop == "C16" else sig)
        if len(samples) < 3 and not viol:
            samples.append({"args": plan["args"], "history": plan["history"], "final": plan["final"], "overlap": plan["overlap"], "exit": out["code"],
                            "verdict": (out["result"] or {}).get("verdict"), "events": ev[:12]})
        for v in viol:
            ks = [i for i, k in enumerate(known) if matches(k, v)]
            if ks:
                known_hits[ks[0]] = known_hits.get(ks[0], 0) + 1
                if ks[0] not in known_hits or known_hits[ks[0]] == 1:
                    pass
                continue
            new.setdefault(vkey(v), (v, plan))
    for i in sorted(known_hits):
        if not (known[i]["plan"]):
            print("KNOWN-FINDING: property=%s %s" % (prop, known[i]["text"]))
    os.makedirs(REPLAYS, exist_ok=True)
    n_viol = 0
    for key, (v, plan) in sorted(new.items()):
        n_viol += 1
        if n_viol > 8:
            continue
        mp, steps = minimise(prop, plan, key)
        again, herr = judge(prop, mp, run_plan(mp))
        if herr or not any(vkey(x) == key for x in again):
            mp, steps = plan, 0
            again, herr = judge(prop, mp, run_plan(mp))
            if herr or not any(vkey(x) == key for x in again):
                log("HARNESS ERROR: violation %s does not reproduce on replay" % key)
                return 2
        path = os.path.join(REPLAYS, "%s-%d-%d.json" % (prop, seed, plan["index"]))
        with open(path, "w") as f:
            json.dump({"plan": mp, "violation": v, "minimised": steps > 0, "shrink_steps": steps}, f, indent=1)
        print("VIOLATION property=%s replay=%s  # %s" % (prop, path, json.dumps(v)))
    wall = time.time() - t0
    level = "exploration" if prop == "C16" else "fault_enumeration"
    os.makedirs(EVID, exist_ok=True)
    ev = {
        "property_id": prop, "tier": tier, "seed": seed, "level": level,
        "coverage": {
            "evaluations": len(plans), "distinct_nontrivial": len(n_nontrivial),
            "rule": ("one run = one real tacd process (shipped profile, panic=abort) started with drawn arguments and judged by an inspecting OpenSSL client on the simulated transport; "
                     if prop == "C16" else
                     "one run = one real tacd process (shipped profile, panic=abort) subjected to a history of hostile/failed/non-ACME connections on the simulated transport, then a valid acme-tls/1 handshake judged by C16's oracle; ")
                    + exhaustive_note + "; non-trivial/distinct = distinct (event sequence, exit status" + (", arguments)" if prop == "C16" else ") among runs with a non-empty history"),
            "samples": samples, "exhaustive": False,
            "exhaustive_part": exhaustive_note,
            "distinct_interleavings": len(hashes),
            "interleaving_measure": "sha256 of the simulator's event log (connection opens, client completions, handler panics) and exit status",
            "behaviours_injected": behaviours, "events": total_events,
            "runs_per_hour": int(len(plans) / wall * 3600) if wall > 0 else 0,
            "simulated_seconds": 0,
            "known_finding_hits": {str(k): v for k, v in known_hits.items()},
            "real_vs_stub": {"real": ["tacd main, clap, init, IDNA, certificate generation, acceptor configuration, ALPN callback, accept loop, thread per connection, OpenSSL server handshake, shipped panic strategy"],
                             "stub": ["listeners and sockets (SimListener/SimStream)", "kernel scheduling of handler threads (released one at a time by the seeded scheduler)", "the clients (OpenSSL client state machines / literal bytes)"]},
        },
        "assumptions": ["validity is checked against real time at second granularity (tacd-sim has no virtual clock)",
                        "the real TcpListener/UnixListener bind paths are not reached (stub)",
                        "a client that offers no ALPN at all is outside C16's statement (OpenSSL does not invoke the selection callback)"],
        "wall_s": round(wall, 2), "violations": n_viol,
    }
    with open(os.path.join(EVID, prop + ".json"), "w") as f:
        json.dump(ev, f, indent=1, sort_keys=True)
    log("%s %s: %d runs, %d violations, %d known-finding hits, %.1fs" % (prop, tier, len(plans), n_viol, sum(known_hits.values()), wall))
    return 1 if n_viol else 0
