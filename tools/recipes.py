"""Per-property recipes: which scenario families a check runs, how many plans per tier, what the
evidence says about level, rule and assumptions."""

REAL_STUB = {
    "real": ["TOML loading", "MainEventLoop::{new,run}", "renew_certificate", "certificate.rs", "acme_proto/*",
             "http.rs above send()", "endpoint.rs rate limiter", "jws.rs", "account*.rs", "storage.rs (real syscalls on a scratch dir)",
             "hooks.rs above spawn()", "template.rs", "identifier.rs", "duration.rs", "acme_common::crypto on the real OpenSSL",
             "async-lock", "futures::FuturesUnordered"],
    "stub": ["tokio runtime/timers/fs (own single-task executor with a virtual clock)", "reqwest/hyper/native-tls below send() and client construction",
             "async-process and every child (simulated program simhook)", "OS clocks", "thread_rng", "hash order of the main loop's maps",
             "the CA (reference model written from the RFCs)", "validation targets"],
}

_COMMON_ASSUME = [
    "the model CA is the reference for RFC 8555 behaviour (its verifier is self-tested against RFC 7515/8037 vectors at every run)",
    "acmed has a single task (nothing is spawned), so the completion order owned by the executor is its whole schedule space",
    "crypto is real OpenSSL; key material is random and never influences a scheduling decision",
]

RECIPES = {}
LEVELS = {}


def reg(prop, category, rule, quick, thorough, assumptions=None, exhaustive_families=None):
    RECIPES[prop] = {"quick": quick, "thorough": thorough}
    LEVELS[prop] = {"category": category, "rule": rule, "assumptions": _COMMON_ASSUME + (assumptions or []),
                    "exhaustive_families": exhaustive_families or []}


reg("C08", "fault_enumeration",
    "F2p: exhaustive grid (12 POST positions of a two-identifier issuance) x (24 ACME error types, unknown type, absent type, "
    "non-JSON body, empty body, JSON non-problem body) x run length 1..12; F2n: 3 polling phases x 8 stay-pending lengths. "
    "A run is non-trivial when the faulted position was actually reached and answered by the scripted error "
    "(or, for F2n, when an object was polled 20 times); distinct = distinct normalised trace hashes among those.",
    quick=[("F2p", 100000), ("F2n", 100000)],
    thorough=[("F2p", 100000), ("F2n", 100000), ("F2q", 20000)],
    assumptions=["error answers to GETs (directory, newNonce) are outside the statement (it speaks of nonces, i.e. POSTs)",
                 "accountDoesNotExist on newOrder/account/keyChange is the C11 re-registration flow, modelled as such"],
    exhaustive_families=["F2p", "F2n"])
