"""Per-property recipes: which scenario families a check runs, how many plans per tier, what the
evidence says about level, rule and assumptions."""

REAL_STUB = {
    "real": ["TOML loading", "MainEventLoop::{new,run}", "renew_certificate", "certificate.rs", "acme_proto/*",
             "http.rs above send()", "endpoint.rs rate limiter", "jws.rs", "account*.rs", "storage.rs (real syscalls on a scratch dir)",
             "hooks.rs above spawn()", "template.rs", "identifier.rs", "duration.rs", "acme_common::crypto on the real OpenSSL",
             "async-lock (one comparison of its mutex reads the virtual clock)", "futures::FuturesUnordered"],
    "stub": ["tokio runtime/timers/fs (own single-task executor with a virtual clock)", "reqwest/hyper/native-tls below send() and client construction",
             "async-process and every child (simulated program simhook)", "OS clocks", "thread_rng", "OpenSSL's random generator (seeded per plan)",
             "hash order of the main loop's maps and of the CSR subject attributes",
             "the CA (reference model written from the RFCs)", "validation targets"],
}

_COMMON_ASSUME = [
    "the model CA is the reference for RFC 8555 behaviour (its verifier is self-tested against RFC 7515/8037 vectors at every run)",
    "acmed has a single task (nothing is spawned), so the completion order owned by the executor is its whole schedule space",
    "crypto is real OpenSSL; its random bytes come from a generator seeded by the plan, so key material and signatures are functions of the plan",
    "every run executes in a process image of its own (fork per plan, replay and shrink candidate): nothing process-wide survives from one plan to the next",
]

RECIPES = {}
LEVELS = {}


def reg(prop, category, rule, quick, thorough, assumptions=None, exhaustive_families=None):
    RECIPES[prop] = {"quick": quick, "thorough": thorough}
    LEVELS[prop] = {"category": category, "rule": rule, "assumptions": _COMMON_ASSUME + (assumptions or []),
                    "exhaustive_families": exhaustive_families or []}


reg("C08", "fault_enumeration",
    "F2p: exhaustive grid (12 POST positions of a two-identifier issuance) x (24 ACME error types, unknown type, absent type, "
    "non-JSON body, empty body, JSON non-problem body) x run length 1..12; F2n: 3 polling phases x 8 stay-pending lengths. "
    "A run is non-trivial when the faulted position was actually reached and answered by the scripted error "
    "(or, for F2n, when an object was polled 20 times); distinct = distinct normalised trace hashes among those.",
    quick=[("F2p", 100000), ("F2n", 100000), ("F2m", 100000)],
    thorough=[("F2p", 100000), ("F2n", 100000), ("F2q", 100000), ("F2m", 100000)],
    assumptions=["error answers to GETs (directory, newNonce) are outside the statement (it speaks of nonces, i.e. POSTs)",
                 "accountDoesNotExist on newOrder/account/keyChange is the C11 re-registration flow, modelled as such"],
    exhaustive_families=["F2p", "F2n", "F2q", "F2m"])

reg("C03", "fault_enumeration",
    "F2: exhaustive single-fault grid: 4 base plans (kp_reuse on/off x matching pair pre-existing or not) x 14 request positions "
    "(directory, nonce, account, order, each authorization fetch, each challenge, each poll, finalize, download) x 65 network/CA fault kinds, "
    "two attempts each; F3: random sequences of 1..6 such faults over 1..4 attempts plus a fault-free tail. Storage and hook faults are not "
    "injected (the statement says 'whatever the CA or the network did'). Non-trivial = at least one attempt ran to its end marker with pair "
    "snapshots taken at begin and end; distinct = distinct normalised trace hashes among those.",
    quick=[("F2", 100000), ("F3", 1500)],
    thorough=[("F2", 100000), ("F2b", 100000), ("F3", 60000)],
    exhaustive_families=["F2", "F2b"])

reg("C07", "fault_enumeration",
    "F2 (exhaustive single network/CA fault grid, see C03), F2h (every hook position x exit code kinds), F2s (storage errors at every "
    "file operation), F3 (random multi-fault sequences over several attempts), F3m (1..6 certificates sharing account and endpoint, any subset "
    "failing permanently). Oracles: no panic; every attempt ends; one post-operation batch per attempt with a faithful report; >= 1 s between "
    "a failed attempt and the next one; healthy certificates are issued. Non-trivial = a run in which at least one attempt failed.",
    quick=[("F2", 100000), ("F2f", 100000), ("F2h", 100000), ("F2s", 100000), ("F3", 800), ("F3m", 500), ("F4u", 100000)],
    thorough=[("F2", 100000), ("F2b", 100000), ("F2f", 100000), ("F2h", 100000), ("F2s", 100000), ("F3", 60000), ("F3m", 20000), ("F4u", 100000)],
    exhaustive_families=["F2", "F2b", "F2f", "F2h", "F2s"])

reg("C02", "exploration",
    "F4: renewal histories (1..2 certificates, 1..8 issuances each) in which the CA's chain length (1..4) and lifetime change per issuance, "
    "with restarts and removed files; F4t: \"twins\" (one certificate requested with two key types: ids and file names differ by the key type only; all ordered "
    "pairs of key types x named/unnamed x kp_reuse x initial table orders; orders are told apart by the type of the finalized key); F6: account histories (contacts, key types, bindings and endpoints change between saves). Oracle: after every "
    "completed write through the storage seam the real file is read back and must equal exactly the bytes written; after every successful attempt "
    "the certificate file equals the CA's served body byte for byte and the key file is the CSR's key. Non-trivial = a run in which an existing "
    "file was rewritten.",
    quick=[("F4", 1000), ("F4c", 100000), ("F4t", 100000), ("F6", 250), ("F1", 500)],
    thorough=[("F4", 50000), ("F4c", 100000), ("F4t", 100000), ("F6", 10000), ("F6x", 20000), ("F1", 50000)])

reg("C06", "exploration",
    "F4: renewal histories over up to 4000 virtual days: CA lifetimes from already-expired to 10 years, renew_delay/random_early_renew from 0s to "
    "beyond the lifetime, SAN sets that are permutations/supersets/subsets of the configuration (IDN, wildcard, IPv4/IPv6 forms), restarts with either "
    "file removed or the wall clock stepped, jitter source in modes seeded/min/max. Oracle on virtual arrival times: the next attempt begins within "
    "[max(t_eval, notAfter-renew_delay-random_early_renew), max(t_eval, notAfter-renew_delay)] +- (2 s + I/O latency bound). Non-trivial = at least one "
    "evaluation instant (boot or end of a successful attempt) was judged.",
    quick=[("F4", 1000), ("F4g", 100000)],
    thorough=[("F4", 50000), ("F4g", 100000)],
    assumptions=["wall-clock steps are injected only while the daemon is stopped (a step during a sleep makes 'on time' ambiguous)",
                 "evaluations after failed attempts are C07's subject, not C06's"])

reg("C01", "exploration",
    "F1: issuance swarm (1..3 certificates, identifier sets of 1..8 entries mixing plain/wildcard/IDN/mixed-case DNS names and IPv4/IPv6 in several "
    "textual forms, 7 key types with RSA kept rare, 3 digests, random subsets of the 15 subject attributes, kp_reuse x key-file states) x CA-behaviour swarm. "
    "Oracle in the model CA and at the storage seam: newOrder identifiers == the harness's own IDNA / RFC 5952 expectation; CSR parsed from DER: self-signature, "
    "SAN multisets, subject, digest, key type; retransmitted finalize identical; after success the stored key is the CSR's key. F1w: a name and its wildcard in one certificate, both orders "
    "(both must be ordered and requested). Non-trivial = at least one order reached the CA.",
    quick=[("F1", 1500), ("F1w", 120)], thorough=[("F1", 100000), ("F1s", 40000), ("F1w", 20000)],
    assumptions=["IDN inputs restricted to code points for which lower-case-then-Punycode is unambiguously the A-label (no UTS-46 mappings demanded)",
                 "the input-space quantifier is covered by seeded generation only"])

reg("C04", "exploration",
    "fault-free families F1 (all key types and flows, badNonce and nonce-expiry as CA behaviours, nonces on GET or not, EAB), F5 (shared endpoints), F6 (account updates, "
    "key roll-overs, re-registration). Every POST the transport seam delivers is verified by the model CA's independent JWS verifier: flattened shape, protected members, alg<->key, "
    "url == request URL, nonce in issued minus consumed, jwk xor kid discipline, signature under the key on record (fixed-width R||S). Non-trivial = at least one POST verified; "
    "ECDSA signatures with a leading-zero component are counted (reach by volume).",
    quick=[("F1", 1200), ("F6k", 100000), ("F5", 250), ("F6", 250)], thorough=[("F1", 70000), ("F6k", 100000), ("F5", 30000), ("F6", 10000), ("F6x", 20000)],
    assumptions=["judged on fault-free families only: after an injected lost reply or failed nonce fetch the daemon legitimately re-uses its last nonce"])

reg("C13", "exploration",
    "F1 with generated mode/owner options (6 owner spellings by name and number, 8 modes, umask in {022,077,027,000}) over create and rewrite; every file the simulated daemon "
    "writes is stat(2)ed on the real scratch tree after the write: mode at creation == configured & ~umask and unchanged by rewrites, uid/gid == configured (own passwd/group reader). "
    "Weakest fit for the technique (no schedule or fault in the statement); claimed because the storage seam performs the real open(2)/chown(2).",
    quick=[("F1", 1200), ("F1o", 100000)], thorough=[("F1", 100000), ("F1o", 100000)])

reg("C05", "exploration",
    "F1 (identifier swarm: several names with different challenge types, CA lists authorizations/challenges in any order, offers subsets, pre-valid authorizations, "
    "7 account key types), F1w (a name and its wildcard with every (base, wildcard) challenge-type pair in both declaration orders), F1p (pending authorizations whose challenges are shown as processing or valid: the hooks of the configured type run all the same), F1h (generated hook tables in which challenge hooks fail on some invocations: the CA must not be told the challenge is ready), and F6k/F6 (account key roll-overs between all ordered pairs of key types and edit/restart histories: the proof must use the key the CA holds when the hooks run, not a superseded one). Oracle: the CA's own computation "
    "of key authorization / dns-01 digest / acmeIdentifier text / reverse-DNS name from the registered JWK and issued token vs what the hook process received; hook type == "
    "the type configured for the identifier the authorization is for; challenge POST only after the hooks exited successfully; no hook for an already valid authorization. "
    "Non-trivial = at least one authorization of a mapped order was judged.",
    quick=[("F1", 1200), ("F1w", 360), ("F1p", 100000), ("F1h", 400), ("F6k", 100000), ("F6", 200)], thorough=[("F1", 80000), ("F1w", 20000), ("F1p", 100000), ("F1h", 30000), ("F6k", 100000), ("F6", 10000), ("F6x", 10000)],
    assumptions=["when a name and its wildcard use the same challenge type either configuration entry may be looked up (only type and proof values are judged)",
                 "no hook and no challenge POST when the CA does not offer the configured type is correct behaviour"])

reg("C10", "exploration",
    "F1h: generated hook tables (3..9 hooks with random type sets incl. multi-typed hooks, nested groups, stdin_str/stdout/stderr templates, allow_failure x exit-code "
    "assignments incl. death by signal, hard failures in a third of the plans), environment tables at global/certificate/identifier/account level plus colliding variables in "
    "the simulator's own process environment; first issuances and renewals (create vs edit), all challenge types. Oracle: independent expansion of the hook table per event, "
    "compared batch by batch with the process seam's records: selection by type, declaration order with groups in place, stop at the first hard failure, one at a time, "
    "rendered argv/stdin/stdout, environment precedence identifier > certificate > global > process, pre/post x create/edit brackets around every storage-seam write, clean hooks "
    "after validated challenges with identical variables. Non-trivial = at least one hook invocation was recorded.",
    quick=[("F1h", 1500)], thorough=[("F1h", 100000)],
    assumptions=["the child process itself is a stub (simhook); template rendering, filtering, ordering, environment assembly and failure handling are the shipped code",
                 "for account file hooks only 'account over process' is asserted (the manual does not say whether the global table reaches accounts)"])

reg("C09", "exploration",
    "F7: limiter swarm: 1..6 certificates and 1..3 accounts on one endpoint with 1..3 limits (n in 1..20, periods 1 s..10 s, plus per-minute and per-hour limits, free in virtual "
    "time), bursts after idle (renewals), retry storms from scripted recoverable errors and badNonce answers. Oracle: the transport seam stamps every request (GET, POST, nonce fetch, "
    "retry, poll) with the virtual clock at the limiter's admission instant; for every limit (n, p) and every request instant t the window (t-p, t] holds at most n requests -- exact, "
    "no slack. Liveness: every certificate is issued within the run's budget. Non-trivial = a run with at least one limited request stream.",
    quick=[("F7", 1200)], thorough=[("F7", 50000)],
    assumptions=["limits are per endpoint and per daemon run (the limiter's memory does not survive a restart)", "periods of 0s and limits of 0 are not generated (C19's subject)"])

reg("C12", "exploration",
    "F5: 2..8 certificates over 1..3 accounts and 1..3 endpoints in every sharing pattern; seeded completion latencies, same-instant tie-breaks, zero-sleep yields, initial poll order, "
    "lock-fairness mode; first registration raced, CA-forgotten accounts, pending contact/key changes after restarts. Oracles: executor deadlock and livelock detectors, per-attempt "
    "termination, newAccount ledger per (key, endpoint) (each extra registration paid by a distinct accountDoesNotExist answer or a binding change), nonce ledger (no POST carries a nonce "
    "consumed by another). Worker-thread counts are not a dimension: acmed has one task. Non-trivial = a run with at least two certificates; interleavings are counted as distinct hashes of "
    "the (resource, event-kind) sequence.",
    quick=[("F5", 1000)], thorough=[("F5", 70000)],
    assumptions=["runtime worker threads (1, 2, 4, 16) cannot change which interleavings exist: nothing is spawned, all certificates are one FuturesUnordered inside block_on"])

reg("C11", "exploration",
    "F6: random histories of length 1..6 over {edit contacts, change key type, change both, toggle external binding, restart, renew on endpoint 0|1|2, CA forgets the account} for one "
    "account on 1..3 endpoints, each followed by a renewal of every endpoint (three attempts allowed); F6x: ALL histories of length <= 4 over 9 steps, one and two endpoints (exhaustive, "
    "thorough tier); F6c: the daemon dies at the n-th storage/network/hook event (incl. between chunks of an account save, and between the delivery of a request and its reply) and is started again; "
    "F6k: all 42 ordered pairs of the seven key types as a configuration edit (incl. rsa2048 <-> rsa4096, which share their signature algorithm); F6f: one request of the synchronisation traffic (account update, key roll-over, registration) is cut before delivery, processed with its reply lost, or refused; F6t: 216 account shapes (6 key types x "
    "1..3 endpoints x 0..2 superseded keys x ASCII/Unicode name x binding) each cut at EVERY offset and booted. Oracles: newAccount only with no stored URL / after accountDoesNotExist / "
    "changed binding; after each successful renewal the CA's record (key thumbprint, contacts) equals the configuration, at most one update per item; in-memory account before a quiescent "
    "stop equals the account loaded at the next boot; a truncated account file => the daemon refuses to start and the file is untouched; the final renewal of every endpoint (three attempts) "
    "must succeed, also in plans with network faults once two of those attempts began after the last fault (except after a roll-over whose reply was lost). Non-trivial = a renewal was judged, a restart compared, "
    "or a truncation point booted.",
    quick=[("F6", 500), ("F6k", 100000), ("F6c", 300), ("F6f", 300), ("F6t", 6)], thorough=[("F6", 20000), ("F6x", 20000), ("F6k", 100000), ("F6c", 10000), ("F6f", 10000), ("F6t", 216)],
    assumptions=["restart = the daemon's future is dropped (process-crash model: completed write(2)s survive; acmed never syncs, so power loss is not claimed)",
                 "an attempt that fails while the record is already in line is C07's matter; reported here only if three further attempts do not converge",
                 "simulated restarts inside one plan share one process image (a process-wide cache added by a change would survive them); every plan starts in a fresh one"],
    exhaustive_families=["F6x", "F6t"])
