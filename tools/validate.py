#!/usr/bin/env python3
"""validate MANIFEST.json and every evidence file against the harness schemas (needs python3-vt)"""
import json, glob, sys, jsonschema
ok = True
def v(path, schema):
    global ok
    try:
        jsonschema.validate(json.load(open(path)), json.load(open(schema)))
        print("valid:", path)
    except Exception as e:
        ok = False
        print("INVALID:", path, str(e)[:300])
v("/verif/MANIFEST.json", "/root/.vp/MANIFEST.schema.json")
for f in sorted(glob.glob("/verif/evidence/*.json")):
    v(f, "/root/.vp/EVIDENCE.schema.json")
sys.exit(0 if ok else 1)
