#!/usr/bin/env python3
"""Print a markdown table: per property, families and plan counts per tier (from recipes.py) and the
measured numbers of the evidence files currently in /verif/evidence."""
import json, os, sys
HERE = os.path.dirname(os.path.dirname(os.path.abspath(__file__)))
sys.path.insert(0, os.path.join(HERE, "tools"))
from recipes import RECIPES
print("| id | quick: families x plans | thorough: families x plans | last evidence: tier, runs, distinct non-trivial, distinct interleavings, simulated days, wall s, runs/h |")
print("|---|---|---|---|")
ids = sorted(set(list(RECIPES.keys()) + ["C16", "C17"]))
for p in ids:
    q = ", ".join("%s x %s" % (f, ("all" if n >= 100000 else n)) for f, n in RECIPES.get(p, {}).get("quick", [])) or "see tools/tacd_driver.py"
    t = ", ".join("%s x %s" % (f, ("all" if n >= 100000 else n)) for f, n in RECIPES.get(p, {}).get("thorough", [])) or "see tools/tacd_driver.py"
    ev = os.path.join(HERE, "evidence", p + ".json")
    e = ""
    if os.path.exists(ev):
        d = json.load(open(ev)); c = d["coverage"]
        e = "%s, %d, %d, %s, %s, %.0f, %s" % (d["tier"], c["evaluations"], c["distinct_nontrivial"], c.get("distinct_interleavings", ""), c.get("simulated_days", ""), d["wall_s"], c.get("runs_per_hour", ""))
    print("| %s | %s | %s | %s |" % (p, q, t, e))
