#!/usr/bin/env python3
"""Print a markdown table: per property, families and plan counts per tier (from recipes.py), the
measured numbers of the evidence files currently in /verif/evidence (quick tier), and - when a log of
`tools/multiseed.py thorough <seed>` is given as argument - the measured size and wall time of the
thorough tier.  usage: summary_table.py [thorough-log]"""
import json, os, re, sys
HERE = os.path.dirname(os.path.dirname(os.path.abspath(__file__)))
sys.path.insert(0, os.path.join(HERE, "tools"))
from recipes import RECIPES
thorough = {}
if len(sys.argv) > 1 and os.path.exists(sys.argv[1]):
    for line in open(sys.argv[1]):
        m = re.search(r"seed=\d+ (C\d\d) exit=(\d+) \d+s (C\d\d) thorough: (\d+) runs, (\d+) violations, (\d+) known-finding hits, ([\d.]+)s", line)
        if m:
            thorough[m.group(1)] = (int(m.group(2)), int(m.group(4)), int(m.group(5)), int(m.group(6)), float(m.group(7)))
print("| id | quick: families x plans | measured (quick): runs, distinct non-trivial, distinct interleavings, simulated days, wall s | thorough: families x plans | measured (thorough): runs, wall s, exit | fully enumerated grids |")
print("|---|---|---|---|---|---|")
ids = sorted(set(list(RECIPES.keys()) + ["C16", "C17"]))
for p in ids:
    fmt = lambda lst: ", ".join("%s x %s" % (f, ("all" if n >= 100000 else n)) for f, n in lst)
    q = fmt(RECIPES.get(p, {}).get("quick", [])) or "tools/tacd_driver.py"
    t = fmt(RECIPES.get(p, {}).get("thorough", [])) or "tools/tacd_driver.py"
    ev = os.path.join(HERE, "evidence", p + ".json")
    e = g = ""
    if os.path.exists(ev):
        d = json.load(open(ev)); c = d["coverage"]
        e = "%d, %d, %s, %s, %.0f" % (c["evaluations"], c["distinct_nontrivial"], c.get("distinct_interleavings", ""), c.get("simulated_days", "-"), d["wall_s"])
        gr = c.get("exhaustively_enumerated_families") or {}
        g = ", ".join("%s (%d)" % (k, v) for k, v in sorted(gr.items())) or (c.get("exhaustive_part", "")[:90])
    th = ""
    if p in thorough:
        x = thorough[p]
        th = "%d, %.0f, %d" % (x[1], x[4], x[0])
    print("| %s | %s | %s | %s | %s | %s |" % (p, q, e, t, th, g))
