#!/usr/bin/env python3
"""Run every registered quick (or thorough) check under several VERIF_SEED values on the current
tree; any exit != 0 is an alarm to triage.  usage: multiseed.py <tier> <seed> [<seed> ...]"""
import json, os, subprocess, sys, time
HERE = os.path.dirname(os.path.dirname(os.path.abspath(__file__)))
m = json.load(open(os.path.join(HERE, "MANIFEST.json")))
tier = sys.argv[1]
seeds = sys.argv[2:]
only = os.environ.get("ONLY", "").split(",") if os.environ.get("ONLY") else None
bad = 0
for seed in seeds:
    for c in m["checks"]:
        if only and c["property_id"] not in only:
            continue
        cmd = c["quick_cmd"] if tier == "quick" else c["thorough_cmd"]
        t0 = time.time()
        r = subprocess.run(cmd, shell=True, cwd=HERE, env=dict(os.environ, VERIF_SEED=seed), capture_output=True, text=True)
        viol = [l for l in r.stdout.splitlines() if l.startswith("VIOLATION")]
        tail = (r.stderr.strip().splitlines() or [""])[-1]
        print("seed=%s %s exit=%d %.0fs %s" % (seed, c["property_id"], r.returncode, time.time() - t0, tail[:160]), flush=True)
        if r.returncode != 0:
            bad += 1
            for v in viol[:6]:
                print("   ", v[:420], flush=True)
            if not viol:
                print("   ", r.stderr[-800:], flush=True)
print("multiseed: %d alarms" % bad)
sys.exit(1 if bad else 0)
